//! RFC 9000 §19 frames and RFC 9221 DATAGRAM.
//!
//! | type        | frame                 | §      |
//! |-------------|-----------------------|--------|
//! | 0x00        | PADDING               | 19.1   |
//! | 0x01        | PING                  | 19.2   |
//! | 0x02-0x03   | ACK                   | 19.3   |
//! | 0x04        | RESET_STREAM          | 19.4   |
//! | 0x05        | STOP_SENDING          | 19.5   |
//! | 0x06        | CRYPTO                | 19.6   |
//! | 0x07        | NEW_TOKEN             | 19.7   |
//! | 0x08-0x0f   | STREAM                | 19.8   |
//! | 0x10        | MAX_DATA              | 19.9   |
//! | 0x11        | MAX_STREAM_DATA       | 19.10  |
//! | 0x12-0x13   | MAX_STREAMS           | 19.11  |
//! | 0x14        | DATA_BLOCKED          | 19.12  |
//! | 0x15        | STREAM_DATA_BLOCKED   | 19.13  |
//! | 0x16-0x17   | STREAMS_BLOCKED       | 19.14  |
//! | 0x18        | NEW_CONNECTION_ID     | 19.15  |
//! | 0x19        | RETIRE_CONNECTION_ID  | 19.16  |
//! | 0x1a        | PATH_CHALLENGE        | 19.17  |
//! | 0x1b        | PATH_RESPONSE         | 19.18  |
//! | 0x1c-0x1d   | CONNECTION_CLOSE      | 19.19  |
//! | 0x1e        | HANDSHAKE_DONE        | 19.20  |
//! | 0x30-0x31   | DATAGRAM              | RFC 9221 §4 |

use crate::varint::{encode_varint_bumped, VARINT_MAX};
use crate::{InvalidKind, MalformedKind, Rd, RefError};
use serde::{Deserialize, Serialize};

/// §19.3.2 ECN Counts { ECT0 Count (i), ECT1 Count (i), ECN-CE Count (i) }
#[derive(Debug, Clone, Copy, PartialEq, Eq, Hash, Serialize, Deserialize)]
pub struct RefEcn {
    pub ect0: u64,
    pub ect1: u64,
    pub ce: u64,
}

#[derive(Debug, Clone, PartialEq, Eq, Hash, Serialize, Deserialize)]
pub enum RefFrame {
    /// a run of `len` consecutive PADDING frames (each is the single byte 0x00)
    Padding { len: usize },
    Ping,
    /// §19.3. `ranges` holds the (Gap, ACK Range Length) pairs after the First ACK Range,
    /// as they are on the wire (see [`RefFrame::ack_ranges`] for packet numbers).
    /// `ecn.is_some()` <=> type 0x03.
    Ack {
        largest: u64,
        delay: u64,
        first_range: u64,
        ranges: Vec<(u64, u64)>,
        ecn: Option<RefEcn>,
    },
    ResetStream { stream_id: u64, error_code: u64, final_size: u64 },
    StopSending { stream_id: u64, error_code: u64 },
    Crypto { offset: u64, data: Vec<u8> },
    NewToken { token: Vec<u8> },
    /// §19.8. `offset`: `None` <=> OFF bit (0x04) clear (the offset is then 0);
    /// `len_bit` <=> LEN bit (0x02) set; `fin` <=> FIN bit (0x01) set.
    Stream {
        stream_id: u64,
        offset: Option<u64>,
        len_bit: bool,
        fin: bool,
        data: Vec<u8>,
    },
    MaxData { max: u64 },
    MaxStreamData { stream_id: u64, max: u64 },
    /// `bidi` <=> type 0x12 (0x13 = unidirectional)
    MaxStreams { bidi: bool, max: u64 },
    DataBlocked { limit: u64 },
    StreamDataBlocked { stream_id: u64, limit: u64 },
    /// `bidi` <=> type 0x16 (0x17 = unidirectional)
    StreamsBlocked { bidi: bool, limit: u64 },
    NewConnectionId {
        seq: u64,
        retire_prior_to: u64,
        cid: Vec<u8>,
        reset_token: [u8; 16],
    },
    RetireConnectionId { seq: u64 },
    PathChallenge { data: [u8; 8] },
    PathResponse { data: [u8; 8] },
    /// type 0x1c
    ConnectionCloseTransport { error_code: u64, frame_type: u64, reason: Vec<u8> },
    /// type 0x1d
    ConnectionCloseApp { error_code: u64, reason: Vec<u8> },
    HandshakeDone,
    /// RFC 9221 §4. `len_bit` <=> type 0x31.
    Datagram { len_bit: bool, data: Vec<u8> },
}

/// names of all frame kinds, in type order (for histograms)
pub const FRAME_NAMES: [&str; 22] = [
    "PADDING",
    "PING",
    "ACK",
    "RESET_STREAM",
    "STOP_SENDING",
    "CRYPTO",
    "NEW_TOKEN",
    "STREAM",
    "MAX_DATA",
    "MAX_STREAM_DATA",
    "MAX_STREAMS",
    "DATA_BLOCKED",
    "STREAM_DATA_BLOCKED",
    "STREAMS_BLOCKED",
    "NEW_CONNECTION_ID",
    "RETIRE_CONNECTION_ID",
    "PATH_CHALLENGE",
    "PATH_RESPONSE",
    "CONNECTION_CLOSE",
    "HANDSHAKE_DONE",
    "DATAGRAM",
    "ACK_ECN",
];

impl RefFrame {
    /// the value of the Frame Type field (including the flag bits of ACK / STREAM /
    /// MAX_STREAMS / STREAMS_BLOCKED / CONNECTION_CLOSE / DATAGRAM)
    pub fn frame_type(&self) -> u64 {
        match self {
            RefFrame::Padding { .. } => 0x00,
            RefFrame::Ping => 0x01,
            RefFrame::Ack { ecn, .. } => 0x02 | ecn.is_some() as u64,
            RefFrame::ResetStream { .. } => 0x04,
            RefFrame::StopSending { .. } => 0x05,
            RefFrame::Crypto { .. } => 0x06,
            RefFrame::NewToken { .. } => 0x07,
            RefFrame::Stream { offset, len_bit, fin, .. } => {
                0x08 | ((offset.is_some() as u64) << 2) | ((*len_bit as u64) << 1) | *fin as u64
            }
            RefFrame::MaxData { .. } => 0x10,
            RefFrame::MaxStreamData { .. } => 0x11,
            RefFrame::MaxStreams { bidi, .. } => 0x12 | !*bidi as u64,
            RefFrame::DataBlocked { .. } => 0x14,
            RefFrame::StreamDataBlocked { .. } => 0x15,
            RefFrame::StreamsBlocked { bidi, .. } => 0x16 | !*bidi as u64,
            RefFrame::NewConnectionId { .. } => 0x18,
            RefFrame::RetireConnectionId { .. } => 0x19,
            RefFrame::PathChallenge { .. } => 0x1a,
            RefFrame::PathResponse { .. } => 0x1b,
            RefFrame::ConnectionCloseTransport { .. } => 0x1c,
            RefFrame::ConnectionCloseApp { .. } => 0x1d,
            RefFrame::HandshakeDone => 0x1e,
            RefFrame::Datagram { len_bit, .. } => 0x30 | *len_bit as u64,
        }
    }

    pub fn name(&self) -> &'static str {
        match self {
            RefFrame::Padding { .. } => "PADDING",
            RefFrame::Ping => "PING",
            RefFrame::Ack { ecn: None, .. } => "ACK",
            RefFrame::Ack { ecn: Some(_), .. } => "ACK_ECN",
            RefFrame::ResetStream { .. } => "RESET_STREAM",
            RefFrame::StopSending { .. } => "STOP_SENDING",
            RefFrame::Crypto { .. } => "CRYPTO",
            RefFrame::NewToken { .. } => "NEW_TOKEN",
            RefFrame::Stream { .. } => "STREAM",
            RefFrame::MaxData { .. } => "MAX_DATA",
            RefFrame::MaxStreamData { .. } => "MAX_STREAM_DATA",
            RefFrame::MaxStreams { .. } => "MAX_STREAMS",
            RefFrame::DataBlocked { .. } => "DATA_BLOCKED",
            RefFrame::StreamDataBlocked { .. } => "STREAM_DATA_BLOCKED",
            RefFrame::StreamsBlocked { .. } => "STREAMS_BLOCKED",
            RefFrame::NewConnectionId { .. } => "NEW_CONNECTION_ID",
            RefFrame::RetireConnectionId { .. } => "RETIRE_CONNECTION_ID",
            RefFrame::PathChallenge { .. } => "PATH_CHALLENGE",
            RefFrame::PathResponse { .. } => "PATH_RESPONSE",
            RefFrame::ConnectionCloseTransport { .. } | RefFrame::ConnectionCloseApp { .. } => {
                "CONNECTION_CLOSE"
            }
            RefFrame::HandshakeDone => "HANDSHAKE_DONE",
            RefFrame::Datagram { .. } => "DATAGRAM",
        }
    }

    /// does the frame have more than one field besides its type (the non-triviality rule of C05)
    pub fn is_multi_field(&self) -> bool {
        !matches!(
            self,
            RefFrame::Padding { .. }
                | RefFrame::Ping
                | RefFrame::HandshakeDone
                | RefFrame::MaxData { .. }
                | RefFrame::DataBlocked { .. }
                | RefFrame::RetireConnectionId { .. }
                | RefFrame::MaxStreams { .. }
                | RefFrame::StreamsBlocked { .. }
                | RefFrame::PathChallenge { .. }
                | RefFrame::PathResponse { .. }
        )
    }

    /// §13.2: "packets that contain frames other than ACK, PADDING, and CONNECTION_CLOSE"
    pub fn is_ack_eliciting(&self) -> bool {
        !matches!(
            self,
            RefFrame::Padding { .. }
                | RefFrame::Ack { .. }
                | RefFrame::ConnectionCloseTransport { .. }
                | RefFrame::ConnectionCloseApp { .. }
        )
    }

    /// For an ACK frame: the acknowledged packet-number ranges as inclusive
    /// `(smallest, largest)` pairs in descending order (§19.3.1):
    /// `smallest = largest - ack_range`, `largest = previous_smallest - gap - 2`.
    /// `None` if the frame is not an ACK or a computed packet number is negative.
    pub fn ack_ranges(&self) -> Option<Vec<(u64, u64)>> {
        let RefFrame::Ack { largest, first_range, ranges, .. } = self else {
            return None;
        };
        let mut out = Vec::with_capacity(ranges.len() + 1);
        let mut smallest = largest.checked_sub(*first_range)?;
        out.push((smallest, *largest));
        for (gap, len) in ranges {
            let largest = smallest.checked_sub(*gap)?.checked_sub(2)?;
            smallest = largest.checked_sub(*len)?;
            out.push((smallest, largest));
        }
        Some(out)
    }

    /// The semantic rules of §19 a receiver has to enforce on a well-formed frame.
    pub fn validate(&self) -> Result<(), InvalidKind> {
        match self {
            RefFrame::Ack { .. } => {
                if self.ack_ranges().is_none() {
                    return Err(InvalidKind::AckRangeUnderflow);
                }
            }
            RefFrame::Crypto { offset, data } => {
                if offset.checked_add(data.len() as u64).map_or(true, |e| e > VARINT_MAX) {
                    return Err(InvalidKind::CryptoOffsetOverflow);
                }
            }
            RefFrame::NewToken { token } => {
                if token.is_empty() {
                    return Err(InvalidKind::EmptyNewToken);
                }
            }
            RefFrame::Stream { offset, data, .. } => {
                let off = offset.unwrap_or(0);
                if off.checked_add(data.len() as u64).map_or(true, |e| e > VARINT_MAX) {
                    return Err(InvalidKind::StreamOffsetOverflow);
                }
            }
            RefFrame::MaxStreams { max, .. } => {
                if *max > 1 << 60 {
                    return Err(InvalidKind::MaxStreamsTooLarge);
                }
            }
            RefFrame::StreamsBlocked { limit, .. } => {
                if *limit > 1 << 60 {
                    return Err(InvalidKind::StreamsBlockedTooLarge);
                }
            }
            RefFrame::NewConnectionId { seq, retire_prior_to, cid, .. } => {
                // §19.15: "Values less than 1 and greater than 20 are invalid and MUST be
                // treated as a connection error of type FRAME_ENCODING_ERROR."
                if cid.is_empty() || cid.len() > 20 {
                    return Err(InvalidKind::NewConnectionIdLength);
                }
                // "Receiving a value in the Retire Prior To field that is greater than that in
                // the Sequence Number field MUST be treated as a connection error of type
                // FRAME_ENCODING_ERROR."
                if retire_prior_to > seq {
                    return Err(InvalidKind::RetirePriorToExceedsSequence);
                }
            }
            _ => {}
        }
        Ok(())
    }
}

// ---------------------------------------------------------------------------------------
// decoding

/// Result of decoding one frame with full wire detail.
#[derive(Debug, Clone, PartialEq, Eq, Hash, Serialize, Deserialize)]
pub struct ParsedFrame {
    pub frame: RefFrame,
    /// bytes of the input this frame occupies
    pub consumed: usize,
    /// encoded length of the Frame Type field (1 unless it was not in its shortest form)
    pub type_len: usize,
    /// every varint of the frame (type included) was in its shortest form
    pub minimal: bool,
}

fn arr<const N: usize>(s: &[u8]) -> [u8; N] {
    let mut a = [0u8; N];
    a.copy_from_slice(s);
    a
}

/// Decodes the frame at the front of `buf` (wire level: semantic rules are not applied and
/// a non-minimal Frame Type is accepted and reported through `type_len`).
///
/// A STREAM / DATAGRAM frame without length extends to the end of `buf`, which therefore
/// has to end where the packet payload ends. A run of PADDING bytes is one frame.
pub fn parse_frame_ext(buf: &[u8]) -> Result<ParsedFrame, RefError> {
    if buf.is_empty() {
        return Err(RefError::Malformed(MalformedKind::Empty));
    }
    let mut r = Rd::new(buf);
    let ty = r.varint()?;
    let type_len = r.pos;
    let frame = match ty {
        0x00 => {
            let mut len = 1;
            // only single-byte PADDING frames are merged into the run
            if type_len == 1 {
                while r.pos < buf.len() && buf[r.pos] == 0 {
                    r.pos += 1;
                    len += 1;
                }
            }
            RefFrame::Padding { len }
        }
        0x01 => RefFrame::Ping,
        0x02 | 0x03 => {
            let largest = r.varint()?;
            let delay = r.varint()?;
            let count = r.varint()?;
            let first_range = r.varint()?;
            // each range takes at least two bytes: never reserve more than the input can hold
            let mut ranges = Vec::with_capacity((count.min(r.remaining() as u64 / 2)) as usize);
            for _ in 0..count {
                let gap = r.varint()?;
                let len = r.varint()?;
                ranges.push((gap, len));
            }
            let ecn = if ty == 0x03 {
                Some(RefEcn { ect0: r.varint()?, ect1: r.varint()?, ce: r.varint()? })
            } else {
                None
            };
            RefFrame::Ack { largest, delay, first_range, ranges, ecn }
        }
        0x04 => RefFrame::ResetStream {
            stream_id: r.varint()?,
            error_code: r.varint()?,
            final_size: r.varint()?,
        },
        0x05 => RefFrame::StopSending { stream_id: r.varint()?, error_code: r.varint()? },
        0x06 => {
            let offset = r.varint()?;
            let len = r.varint()?;
            RefFrame::Crypto { offset, data: r.bytes_u64(len)?.to_vec() }
        }
        0x07 => {
            let len = r.varint()?;
            RefFrame::NewToken { token: r.bytes_u64(len)?.to_vec() }
        }
        0x08..=0x0f => {
            let stream_id = r.varint()?;
            let offset = if ty & 0x04 != 0 { Some(r.varint()?) } else { None };
            let len_bit = ty & 0x02 != 0;
            let data = if len_bit {
                let len = r.varint()?;
                r.bytes_u64(len)?.to_vec()
            } else {
                r.rest().to_vec()
            };
            RefFrame::Stream { stream_id, offset, len_bit, fin: ty & 0x01 != 0, data }
        }
        0x10 => RefFrame::MaxData { max: r.varint()? },
        0x11 => RefFrame::MaxStreamData { stream_id: r.varint()?, max: r.varint()? },
        0x12 | 0x13 => RefFrame::MaxStreams { bidi: ty == 0x12, max: r.varint()? },
        0x14 => RefFrame::DataBlocked { limit: r.varint()? },
        0x15 => RefFrame::StreamDataBlocked { stream_id: r.varint()?, limit: r.varint()? },
        0x16 | 0x17 => RefFrame::StreamsBlocked { bidi: ty == 0x16, limit: r.varint()? },
        0x18 => {
            let seq = r.varint()?;
            let retire_prior_to = r.varint()?;
            let len = r.u8()?;
            let cid = r.bytes(len as usize)?.to_vec();
            let reset_token = arr::<16>(r.bytes(16)?);
            RefFrame::NewConnectionId { seq, retire_prior_to, cid, reset_token }
        }
        0x19 => RefFrame::RetireConnectionId { seq: r.varint()? },
        0x1a => RefFrame::PathChallenge { data: arr::<8>(r.bytes(8)?) },
        0x1b => RefFrame::PathResponse { data: arr::<8>(r.bytes(8)?) },
        0x1c => {
            let error_code = r.varint()?;
            let frame_type = r.varint()?;
            let len = r.varint()?;
            RefFrame::ConnectionCloseTransport {
                error_code,
                frame_type,
                reason: r.bytes_u64(len)?.to_vec(),
            }
        }
        0x1d => {
            let error_code = r.varint()?;
            let len = r.varint()?;
            RefFrame::ConnectionCloseApp { error_code, reason: r.bytes_u64(len)?.to_vec() }
        }
        0x1e => RefFrame::HandshakeDone,
        0x30 => RefFrame::Datagram { len_bit: false, data: r.rest().to_vec() },
        0x31 => {
            let len = r.varint()?;
            RefFrame::Datagram { len_bit: true, data: r.bytes_u64(len)?.to_vec() }
        }
        other => return Err(RefError::Malformed(MalformedKind::UnknownFrameType(other))),
    };
    Ok(ParsedFrame { frame, consumed: r.pos, type_len, minimal: r.minimal })
}

/// Wire-level decode of one frame: `(frame, bytes consumed)`.
pub fn parse_frame(buf: &[u8]) -> Result<(RefFrame, usize), RefError> {
    parse_frame_ext(buf).map(|p| (p.frame, p.consumed))
}

/// Like [`parse_frame`], but a frame that breaks a semantic rule of §12.4/§19 is reported as
/// `RefError::Invalid(kind)`.
pub fn parse_frame_strict(buf: &[u8]) -> Result<(RefFrame, usize), RefError> {
    let p = parse_frame_ext(buf)?;
    if p.type_len != 1 {
        return Err(RefError::Invalid(InvalidKind::NonMinimalFrameType));
    }
    p.frame.validate().map_err(RefError::Invalid)?;
    Ok((p.frame, p.consumed))
}

/// Decodes a whole packet payload (wire level). An empty payload yields an empty list
/// (§12.4 makes a packet without frames a PROTOCOL_VIOLATION; that is the caller's rule).
pub fn parse_frames(mut buf: &[u8]) -> Result<Vec<RefFrame>, RefError> {
    let mut out = Vec::new();
    while !buf.is_empty() {
        let p = parse_frame_ext(buf)?;
        // `consumed` is at least 1, so this loop ends after at most `buf.len()` rounds
        buf = &buf[p.consumed..];
        out.push(p.frame);
    }
    Ok(out)
}

/// Whole payload with wire detail per frame.
pub fn parse_frames_ext(mut buf: &[u8]) -> Result<Vec<ParsedFrame>, RefError> {
    let mut out = Vec::new();
    while !buf.is_empty() {
        let p = parse_frame_ext(buf)?;
        buf = &buf[p.consumed..];
        out.push(p);
    }
    Ok(out)
}

/// Whole payload, semantic rules applied to every frame.
pub fn parse_frames_strict(mut buf: &[u8]) -> Result<Vec<RefFrame>, RefError> {
    let mut out = Vec::new();
    while !buf.is_empty() {
        let (f, n) = parse_frame_strict(buf)?;
        buf = &buf[n..];
        out.push(f);
    }
    Ok(out)
}

// ---------------------------------------------------------------------------------------
// encoding

/// How varints are widened by the encoder (for generators of non-minimal encodings).
///
/// The i-th varint field of a frame (the Frame Type not counted) is written on
/// `min(8, shortest_len << bumps[i % bumps.len()])` bytes; an empty list means shortest
/// form. `type_bump` does the same for the Frame Type field (0 = the single byte §12.4
/// requires).
#[derive(Debug, Clone, Copy, Default)]
pub struct EncodeOpts<'a> {
    pub type_bump: u8,
    pub bumps: &'a [u8],
}

struct Enc<'a, 'b> {
    out: &'a mut Vec<u8>,
    bumps: &'b [u8],
    i: usize,
}

impl Enc<'_, '_> {
    fn varint(&mut self, v: u64) {
        let bump = if self.bumps.is_empty() { 0 } else { self.bumps[self.i % self.bumps.len()] };
        self.i += 1;
        encode_varint_bumped(v, bump, self.out);
    }
    fn bytes(&mut self, b: &[u8]) {
        self.out.extend_from_slice(b);
    }
}

/// Appends the shortest encoding of `frame`. `Padding { len: 0 }` appends nothing.
/// Panics if an integer field exceeds 2^62-1 or a NEW_CONNECTION_ID cid exceeds 255 bytes
/// (values the wire format cannot carry).
pub fn encode_frame(frame: &RefFrame, out: &mut Vec<u8>) {
    encode_frame_opts(frame, out, EncodeOpts::default())
}

pub fn encode_frames(frames: &[RefFrame], out: &mut Vec<u8>) {
    for f in frames {
        encode_frame(f, out);
    }
}

pub fn encode_frame_opts(frame: &RefFrame, out: &mut Vec<u8>, opts: EncodeOpts) {
    if let RefFrame::Padding { len } = frame {
        out.resize(out.len() + len, 0);
        return;
    }
    encode_varint_bumped(frame.frame_type(), opts.type_bump, out);
    let mut e = Enc { out, bumps: opts.bumps, i: 0 };
    match frame {
        RefFrame::Padding { .. } => unreachable!(),
        RefFrame::Ping | RefFrame::HandshakeDone => {}
        RefFrame::Ack { largest, delay, first_range, ranges, ecn } => {
            e.varint(*largest);
            e.varint(*delay);
            e.varint(ranges.len() as u64);
            e.varint(*first_range);
            for (gap, len) in ranges {
                e.varint(*gap);
                e.varint(*len);
            }
            if let Some(ecn) = ecn {
                e.varint(ecn.ect0);
                e.varint(ecn.ect1);
                e.varint(ecn.ce);
            }
        }
        RefFrame::ResetStream { stream_id, error_code, final_size } => {
            e.varint(*stream_id);
            e.varint(*error_code);
            e.varint(*final_size);
        }
        RefFrame::StopSending { stream_id, error_code } => {
            e.varint(*stream_id);
            e.varint(*error_code);
        }
        RefFrame::Crypto { offset, data } => {
            e.varint(*offset);
            e.varint(data.len() as u64);
            e.bytes(data);
        }
        RefFrame::NewToken { token } => {
            e.varint(token.len() as u64);
            e.bytes(token);
        }
        RefFrame::Stream { stream_id, offset, len_bit, data, .. } => {
            e.varint(*stream_id);
            if let Some(off) = offset {
                e.varint(*off);
            }
            if *len_bit {
                e.varint(data.len() as u64);
            }
            e.bytes(data);
        }
        RefFrame::MaxData { max } => e.varint(*max),
        RefFrame::MaxStreamData { stream_id, max } => {
            e.varint(*stream_id);
            e.varint(*max);
        }
        RefFrame::MaxStreams { max, .. } => e.varint(*max),
        RefFrame::DataBlocked { limit } => e.varint(*limit),
        RefFrame::StreamDataBlocked { stream_id, limit } => {
            e.varint(*stream_id);
            e.varint(*limit);
        }
        RefFrame::StreamsBlocked { limit, .. } => e.varint(*limit),
        RefFrame::NewConnectionId { seq, retire_prior_to, cid, reset_token } => {
            e.varint(*seq);
            e.varint(*retire_prior_to);
            assert!(cid.len() <= 255, "connection id length does not fit the 8-bit field");
            e.bytes(&[cid.len() as u8]);
            e.bytes(cid);
            e.bytes(reset_token);
        }
        RefFrame::RetireConnectionId { seq } => e.varint(*seq),
        RefFrame::PathChallenge { data } | RefFrame::PathResponse { data } => e.bytes(data),
        RefFrame::ConnectionCloseTransport { error_code, frame_type, reason } => {
            e.varint(*error_code);
            e.varint(*frame_type);
            e.varint(reason.len() as u64);
            e.bytes(reason);
        }
        RefFrame::ConnectionCloseApp { error_code, reason } => {
            e.varint(*error_code);
            e.varint(reason.len() as u64);
            e.bytes(reason);
        }
        RefFrame::Datagram { len_bit, data } => {
            if *len_bit {
                e.varint(data.len() as u64);
            }
            e.bytes(data);
        }
    }
}

#[cfg(test)]
mod tests {
    use super::*;

    struct Rng(u64);
    impl Rng {
        fn next(&mut self) -> u64 {
            self.0 = self.0.wrapping_add(0x9E37_79B9_7F4A_7C15);
            let mut z = self.0;
            z = (z ^ (z >> 30)).wrapping_mul(0xBF58_476D_1CE4_E5B9);
            z = (z ^ (z >> 27)).wrapping_mul(0x94D0_49BB_1331_11EB);
            z ^ (z >> 31)
        }
        fn below(&mut self, n: u64) -> u64 {
            self.next() % n
        }
        fn vi(&mut self) -> u64 {
            const P: [u64; 8] = [0, 63, 64, 16383, 16384, (1 << 30) - 1, 1 << 30, VARINT_MAX];
            match self.below(4) {
                0 => P[self.below(8) as usize],
                1 => self.below(100),
                2 => self.below(1 << 20),
                _ => self.next() & VARINT_MAX,
            }
        }
        fn bytes(&mut self, max: u64) -> Vec<u8> {
            let n = self.below(max + 1);
            (0..n).map(|_| self.next() as u8).collect()
        }
        fn frame(&mut self, last: bool) -> RefFrame {
            match self.below(23) {
                0 => RefFrame::Padding { len: 1 + self.below(5) as usize },
                1 => RefFrame::Ping,
                2 | 3 => {
                    let n = self.below(5);
                    RefFrame::Ack {
                        largest: self.vi(),
                        delay: self.vi(),
                        first_range: self.vi(),
                        ranges: (0..n).map(|_| (self.vi(), self.vi())).collect(),
                        ecn: if self.below(2) == 0 {
                            None
                        } else {
                            Some(RefEcn { ect0: self.vi(), ect1: self.vi(), ce: self.vi() })
                        },
                    }
                }
                4 => RefFrame::ResetStream {
                    stream_id: self.vi(),
                    error_code: self.vi(),
                    final_size: self.vi(),
                },
                5 => RefFrame::StopSending { stream_id: self.vi(), error_code: self.vi() },
                6 => RefFrame::Crypto { offset: self.vi(), data: self.bytes(70) },
                7 => RefFrame::NewToken { token: self.bytes(70) },
                8 | 9 => RefFrame::Stream {
                    stream_id: self.vi(),
                    offset: if self.below(2) == 0 { None } else { Some(self.vi()) },
                    len_bit: !last || self.below(2) == 0,
                    fin: self.below(2) == 0,
                    data: self.bytes(70),
                },
                10 => RefFrame::MaxData { max: self.vi() },
                11 => RefFrame::MaxStreamData { stream_id: self.vi(), max: self.vi() },
                12 => RefFrame::MaxStreams { bidi: self.below(2) == 0, max: self.vi() },
                13 => RefFrame::DataBlocked { limit: self.vi() },
                14 => RefFrame::StreamDataBlocked { stream_id: self.vi(), limit: self.vi() },
                15 => RefFrame::StreamsBlocked { bidi: self.below(2) == 0, limit: self.vi() },
                16 => RefFrame::NewConnectionId {
                    seq: self.vi(),
                    retire_prior_to: self.vi(),
                    cid: self.bytes(30),
                    reset_token: arr::<16>(&self.next().to_be_bytes().repeat(2)),
                },
                17 => RefFrame::RetireConnectionId { seq: self.vi() },
                18 => RefFrame::PathChallenge { data: self.next().to_be_bytes() },
                19 => RefFrame::PathResponse { data: self.next().to_be_bytes() },
                20 => {
                    if self.below(2) == 0 {
                        RefFrame::ConnectionCloseTransport {
                            error_code: self.vi(),
                            frame_type: self.vi(),
                            reason: self.bytes(40),
                        }
                    } else {
                        RefFrame::ConnectionCloseApp { error_code: self.vi(), reason: self.bytes(40) }
                    }
                }
                21 => RefFrame::HandshakeDone,
                _ => RefFrame::Datagram {
                    len_bit: !last || self.below(2) == 0,
                    data: self.bytes(70),
                },
            }
        }
    }

    /// merges adjacent padding, as the parser reports one frame per run
    fn normalise(frames: Vec<RefFrame>) -> Vec<RefFrame> {
        let mut out: Vec<RefFrame> = vec![];
        for f in frames {
            if let (Some(RefFrame::Padding { len: a }), RefFrame::Padding { len: b }) =
                (out.last_mut(), &f)
            {
                *a += *b;
                continue;
            }
            out.push(f);
        }
        out
    }

    #[test]
    fn round_trip_generated_sequences() {
        let mut rng = Rng(7);
        for case in 0..20_000 {
            let n = 1 + rng.below(6) as usize;
            let frames: Vec<RefFrame> = (0..n).map(|i| rng.frame(i + 1 == n)).collect();
            let frames = normalise(frames);
            let mut bytes = vec![];
            encode_frames(&frames, &mut bytes);
            let parsed = parse_frames_ext(&bytes).unwrap_or_else(|e| panic!("case {case}: {e:?} {frames:?}"));
            let back: Vec<RefFrame> = parsed.iter().map(|p| p.frame.clone()).collect();
            assert_eq!(back, frames, "case {case}");
            assert!(parsed.iter().all(|p| p.minimal && p.type_len == 1));
            assert_eq!(parsed.iter().map(|p| p.consumed).sum::<usize>(), bytes.len());

            // non-minimal varints decode to the same values and are flagged
            let bumps: Vec<u8> = (0..4).map(|_| rng.below(4) as u8).collect();
            let mut wide = vec![];
            for f in &frames {
                encode_frame_opts(f, &mut wide, EncodeOpts { type_bump: 0, bumps: &bumps });
            }
            assert_eq!(parse_frames(&wide).unwrap(), frames, "case {case} bumps {bumps:?}");

            // every strict prefix of a single frame with explicit length is truncated
            let f = rng.frame(false);
            if !matches!(f, RefFrame::Padding { .. }) {
                let mut one = vec![];
                encode_frame(&f, &mut one);
                assert_eq!(parse_frame(&one), Ok((f.clone(), one.len())));
                for cut in 0..one.len() {
                    assert!(
                        matches!(parse_frame(&one[..cut]), Err(RefError::Malformed(_))),
                        "{f:?} cut {cut}"
                    );
                }
            }
        }
    }

    #[test]
    fn never_panics_on_noise() {
        let mut rng = Rng(99);
        for _ in 0..200_000 {
            let mut b = rng.bytes(40);
            if !b.is_empty() && rng.below(2) == 0 {
                b[0] = rng.below(0x32) as u8;
            }
            let _ = parse_frames(&b);
            let _ = parse_frames_strict(&b);
        }
        // huge ACK Range Count does not allocate
        let mut b = vec![0x02, 0x00, 0x00];
        crate::varint::encode_varint(VARINT_MAX, &mut b);
        b.push(0);
        assert_eq!(parse_frame(&b), Err(RefError::TRUNCATED));
    }

    #[test]
    fn ack_ranges_follow_19_3_1() {
        // largest 100, first range 10 -> [90,100]; gap 0 -> largest 88, len 3 -> [85,88]
        let f = RefFrame::Ack {
            largest: 100,
            delay: 0,
            first_range: 10,
            ranges: vec![(0, 3), (5, 0)],
            ecn: None,
        };
        // third: largest = 85 - 5 - 2 = 78, len 0 -> [78,78]
        assert_eq!(f.ack_ranges(), Some(vec![(90, 100), (85, 88), (78, 78)]));
        assert_eq!(f.validate(), Ok(()));
        let bad = RefFrame::Ack { largest: 5, delay: 0, first_range: 6, ranges: vec![], ecn: None };
        assert_eq!(bad.validate(), Err(InvalidKind::AckRangeUnderflow));
        let bad = RefFrame::Ack { largest: 5, delay: 0, first_range: 4, ranges: vec![(0, 0)], ecn: None };
        // smallest 1, next largest = 1 - 0 - 2 < 0
        assert_eq!(bad.validate(), Err(InvalidKind::AckRangeUnderflow));
    }

    #[test]
    fn layout_examples() {
        // STREAM, OFF|LEN|FIN, id 4, offset 64 (2-byte varint), "hi"
        let f = RefFrame::Stream { stream_id: 4, offset: Some(64), len_bit: true, fin: true, data: b"hi".to_vec() };
        let mut b = vec![];
        encode_frame(&f, &mut b);
        assert_eq!(b, [0x0f, 0x04, 0x40, 0x40, 0x02, b'h', b'i']);
        // without LEN the frame swallows the rest of the payload
        assert_eq!(
            parse_frame(&[0x08, 0x04, 1, 2, 3]),
            Ok((RefFrame::Stream { stream_id: 4, offset: None, len_bit: false, fin: false, data: vec![1, 2, 3] }, 5))
        );
        // padding runs coalesce and stop at the first non-zero byte
        assert_eq!(parse_frame(&[0, 0, 0, 1]), Ok((RefFrame::Padding { len: 3 }, 3)));
        assert_eq!(
            parse_frames(&[0, 0, 1, 0, 0x1e]),
            Ok(vec![RefFrame::Padding { len: 2 }, RefFrame::Ping, RefFrame::Padding { len: 1 }, RefFrame::HandshakeDone])
        );
        // CONNECTION_CLOSE 0x1c: code 0x0a, frame type 0x06, reason "x"
        assert_eq!(
            parse_frame(&[0x1c, 0x0a, 0x06, 0x01, b'x']),
            Ok((RefFrame::ConnectionCloseTransport { error_code: 10, frame_type: 6, reason: b"x".to_vec() }, 5))
        );
        // unknown types
        for t in [0x1fu8, 0x20, 0x2f, 0x32, 0x3f] {
            assert_eq!(parse_frame(&[t, 0, 0]), Err(RefError::Malformed(MalformedKind::UnknownFrameType(t as u64))));
        }
        // non-minimal type: accepted at wire level with type_len 2, rejected by strict
        let p = parse_frame_ext(&[0x40, 0x01]).unwrap();
        assert_eq!((p.frame, p.consumed, p.type_len, p.minimal), (RefFrame::Ping, 2, 2, false));
        assert_eq!(parse_frame_strict(&[0x40, 0x01]), Err(RefError::Invalid(InvalidKind::NonMinimalFrameType)));
        // validity rules
        assert_eq!(parse_frame_strict(&[0x07, 0x00]), Err(RefError::Invalid(InvalidKind::EmptyNewToken)));
        let mut b = vec![0x12];
        crate::varint::encode_varint((1 << 60) + 1, &mut b);
        assert_eq!(parse_frame_strict(&b), Err(RefError::Invalid(InvalidKind::MaxStreamsTooLarge)));
        b[0] = 0x12;
        let mut ok = vec![0x13];
        crate::varint::encode_varint(1 << 60, &mut ok);
        assert!(parse_frame_strict(&ok).is_ok());
    }
}
