//! Independent reference codec for RFC 9000 §16–§19 / RFC 9221 — not built yet.
