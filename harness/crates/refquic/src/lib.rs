//! refquic — an independent reference codec for the QUIC wire format.
//!
//! Written only from RFC 9000 §16 (variable-length integers), §17 (packet headers),
//! §18 (transport parameters), §19 (frames), Appendix A.2/A.3 (packet-number
//! truncation) and RFC 9221 (DATAGRAM). It does not depend on, and shares no code with,
//! s2n-quic / s2n-codec: it is the *oracle* of the differential checks and the decoder the
//! end-to-end recorder uses for every cleartext payload on the wire.
//!
//! Design rules
//! * every decoder takes a plain `&[u8]`, is total (returns `Err`, never panics, never
//!   allocates more than the input is long) and reports how many bytes it consumed;
//! * *wire well-formedness* and *semantic validity* are kept apart:
//!   `parse_*` functions accept everything the RFC grammar can represent and return
//!   [`RefError::Malformed`] otherwise; rules of the kind "a receiver MUST treat the value
//!   … as an error" are reported by `validate()` / the `*_strict` functions as
//!   [`RefError::Invalid`] with an [`InvalidKind`], so a caller can decide whether the
//!   code under test is allowed to defer the rule to a later layer;
//! * encoders are minimal by default; `*_opts` variants take a list of "width bumps" so
//!   generators can produce the non-minimal varint encodings §16 permits.

pub mod frame;
pub mod packet;
pub mod params;
pub mod varint;

pub use frame::{
    encode_frame, encode_frame_opts, encode_frames, parse_frame, parse_frame_ext,
    parse_frame_strict, parse_frames, parse_frames_ext, parse_frames_strict, EncodeOpts,
    ParsedFrame, RefEcn, RefFrame,
};
pub use packet::{
    decode_packet_number, encode_header, encode_packet_number, encode_packet_number_len,
    parse_datagram_headers, parse_datagram_headers_ext, parse_header, RefHeader, RefPacketType,
    QUIC_V1,
};
pub use params::{
    encode_transport_params, encode_transport_params_opts, parse_transport_params,
    RefParams, RefPreferredAddress, Role,
};
pub use varint::{
    decode_varint, encode_varint, encode_varint_width, is_minimal, varint_len, VARINT_MAX,
};

use serde::{Deserialize, Serialize};

/// Why a byte string is not in the RFC grammar at all.
#[derive(Debug, Clone, Copy, PartialEq, Eq, Hash, Serialize, Deserialize)]
pub enum MalformedKind {
    /// the input ends inside a field (or a length field points beyond the input)
    Truncated,
    /// nothing to decode
    Empty,
    /// §12.4: "An endpoint MUST treat the receipt of a frame of unknown type as a connection
    /// error of type FRAME_ENCODING_ERROR"
    UnknownFrameType(u64),
    /// §17.2/§17.3: the fixed bit is 0 in a packet that is not a Version Negotiation packet
    FixedBitZero,
    /// §17.2.1: the list of supported versions is not a whole number of 32-bit words
    VersionListNotAligned,
    /// §18: the value of a known transport parameter does not have the format the RFC
    /// defines for it (integer parameters: exactly one varint; tokens: 16 bytes; flags: empty)
    ParameterValueFormat(u64),
}

/// A rule of the RFC about a *well-formed* message that makes it unacceptable.
#[derive(Debug, Clone, Copy, PartialEq, Eq, Hash, Serialize, Deserialize)]
pub enum InvalidKind {
    /// §12.4: frame type not in its shortest encoding ("MAY treat … as PROTOCOL_VIOLATION")
    NonMinimalFrameType,
    /// §19.3.1: "If any computed packet number is negative, an endpoint MUST generate a
    /// connection error of type FRAME_ENCODING_ERROR"
    AckRangeUnderflow,
    /// §19.6: offset + length of CRYPTO data exceeds 2^62-1
    CryptoOffsetOverflow,
    /// §19.7: "A client MUST treat receipt of a NEW_TOKEN frame with an empty Token field as a
    /// connection error of type FRAME_ENCODING_ERROR"
    EmptyNewToken,
    /// §19.8: "The largest offset delivered on a stream — the sum of the offset and data
    /// length — cannot exceed 2^62-1"
    StreamOffsetOverflow,
    /// §19.11: MAX_STREAMS above 2^60
    MaxStreamsTooLarge,
    /// §19.14: STREAMS_BLOCKED above 2^60
    StreamsBlockedTooLarge,
    /// §19.15: connection id length < 1 or > 20
    NewConnectionIdLength,
    /// §19.15: Retire Prior To greater than Sequence Number
    RetirePriorToExceedsSequence,
    /// §17.2: version 1 long header with a connection id longer than 20 bytes
    ConnectionIdTooLong,
    /// §17.2.5.2: "A client MUST discard a Retry packet with a zero-length Retry Token field"
    EmptyRetryToken,
    /// §17.2.1: Version Negotiation without any version (nothing to negotiate)
    EmptyVersionList,
}

#[derive(Debug, Clone, Copy, PartialEq, Eq, Hash, Serialize, Deserialize)]
pub enum RefError {
    Malformed(MalformedKind),
    Invalid(InvalidKind),
}

impl RefError {
    pub const TRUNCATED: RefError = RefError::Malformed(MalformedKind::Truncated);

    pub fn is_malformed(&self) -> bool {
        matches!(self, RefError::Malformed(_))
    }
    pub fn is_invalid(&self) -> bool {
        matches!(self, RefError::Invalid(_))
    }
}

impl core::fmt::Display for RefError {
    fn fmt(&self, f: &mut core::fmt::Formatter<'_>) -> core::fmt::Result {
        write!(f, "{self:?}")
    }
}

impl std::error::Error for RefError {}

/// Cursor over an input slice; every read is bounds-checked.
#[derive(Clone, Copy)]
pub(crate) struct Rd<'a> {
    pub buf: &'a [u8],
    pub pos: usize,
    /// false as soon as one varint was read that was not in its shortest form
    pub minimal: bool,
}

impl<'a> Rd<'a> {
    pub fn new(buf: &'a [u8]) -> Self {
        Rd { buf, pos: 0, minimal: true }
    }
    pub fn remaining(&self) -> usize {
        self.buf.len() - self.pos
    }
    pub fn u8(&mut self) -> Result<u8, RefError> {
        let b = *self.buf.get(self.pos).ok_or(RefError::TRUNCATED)?;
        self.pos += 1;
        Ok(b)
    }
    pub fn u16(&mut self) -> Result<u16, RefError> {
        let b = self.bytes(2)?;
        Ok(u16::from_be_bytes([b[0], b[1]]))
    }
    pub fn u32(&mut self) -> Result<u32, RefError> {
        let b = self.bytes(4)?;
        Ok(u32::from_be_bytes([b[0], b[1], b[2], b[3]]))
    }
    pub fn bytes(&mut self, n: usize) -> Result<&'a [u8], RefError> {
        if n > self.remaining() {
            return Err(RefError::TRUNCATED);
        }
        let s = &self.buf[self.pos..self.pos + n];
        self.pos += n;
        Ok(s)
    }
    /// a byte string whose length is given as a 62-bit integer
    pub fn bytes_u64(&mut self, n: u64) -> Result<&'a [u8], RefError> {
        if n > self.remaining() as u64 {
            return Err(RefError::TRUNCATED);
        }
        self.bytes(n as usize)
    }
    pub fn rest(&mut self) -> &'a [u8] {
        let s = &self.buf[self.pos..];
        self.pos = self.buf.len();
        s
    }
    pub fn varint(&mut self) -> Result<u64, RefError> {
        let (v, n) = varint::decode_varint(&self.buf[self.pos..])?;
        if !varint::is_minimal(v, n) {
            self.minimal = false;
        }
        self.pos += n;
        Ok(v)
    }
}
