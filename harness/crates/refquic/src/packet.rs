//! RFC 9000 §17 packet headers (as they appear on the wire, i.e. with header protection
//! still applied: only the fields that are not protected are interpreted) and the
//! packet-number algorithms of Appendix A.2 / A.3.
//!
//! ```text
//! Long Header Packet {                       1-RTT Packet {
//!   Header Form (1) = 1,                       Header Form (1) = 0,
//!   Fixed Bit (1) = 1,                         Fixed Bit (1) = 1,
//!   Long Packet Type (2),                      Spin Bit (1),
//!   Type-Specific Bits (4),                    Reserved Bits (2),
//!   Version (32),                              Key Phase (1),
//!   Destination Connection ID Length (8),      Packet Number Length (2),
//!   Destination Connection ID (0..160),        Destination Connection ID (0..160),
//!   Source Connection ID Length (8),           Packet Number (8..32),
//!   Source Connection ID (0..160),             Packet Payload (8..),
//!   Type-Specific Payload (..),              }
//! }
//! Initial:   ... Token Length (i), Token (..), Length (i), Packet Number (8..32), Payload
//! 0-RTT / Handshake: ... Length (i), Packet Number (8..32), Payload
//! Retry:     ... Retry Token (..), Retry Integrity Tag (128)
//! Version Negotiation: Header Form = 1, Unused (7), Version = 0, DCID, SCID, Supported Version (32) ...
//! ```

use crate::varint::encode_varint_bumped;
use crate::{InvalidKind, MalformedKind, Rd, RefError};
use serde::{Deserialize, Serialize};

pub const QUIC_V1: u32 = 0x0000_0001;

#[derive(Debug, Clone, Copy, PartialEq, Eq, Hash, Serialize, Deserialize)]
pub enum RefPacketType {
    /// long header type 0x00
    Initial,
    /// long header type 0x01
    ZeroRtt,
    /// long header type 0x02
    Handshake,
    /// long header type 0x03
    Retry,
    /// long header with Version == 0
    VersionNegotiation,
    /// short header (1-RTT)
    Short,
}

#[derive(Debug, Clone, PartialEq, Eq, Hash, Serialize, Deserialize)]
pub struct RefHeader {
    pub ty: RefPacketType,
    /// where this packet starts inside the datagram it was parsed from
    pub offset: usize,
    pub first_byte: u8,
    /// long headers only
    pub version: Option<u32>,
    pub dcid: Vec<u8>,
    /// long headers only
    pub scid: Option<Vec<u8>>,
    /// Initial: Token; Retry: Retry Token
    pub token: Option<Vec<u8>>,
    /// Initial / 0-RTT / Handshake: value of the Length field
    pub length: Option<u64>,
    /// offset (from the start of this packet) of the first byte of the protected Packet
    /// Number field; `None` for Retry and Version Negotiation
    pub pn_offset: Option<usize>,
    /// total number of bytes this packet occupies in the datagram
    pub packet_len: usize,
    /// Version Negotiation only
    pub versions: Vec<u32>,
    /// Retry only
    pub integrity_tag: Option<[u8; 16]>,
    /// Token Length and Length were encoded in their shortest form
    pub minimal: bool,
}

impl RefHeader {
    pub fn is_long(&self) -> bool {
        self.ty != RefPacketType::Short
    }

    /// Rules about a well-formed header a version-1 receiver has to enforce.
    pub fn validate(&self) -> Result<(), InvalidKind> {
        // §17.2: "In QUIC version 1, this value MUST NOT exceed 20 bytes. Endpoints that
        // receive a version 1 long header with a value larger than 20 MUST drop the packet."
        if self.version == Some(QUIC_V1)
            && (self.dcid.len() > 20 || self.scid.as_ref().map_or(false, |s| s.len() > 20))
        {
            return Err(InvalidKind::ConnectionIdTooLong);
        }
        match self.ty {
            RefPacketType::Retry => {
                if self.token.as_ref().map_or(true, |t| t.is_empty()) {
                    return Err(InvalidKind::EmptyRetryToken);
                }
            }
            RefPacketType::VersionNegotiation => {
                if self.versions.is_empty() {
                    return Err(InvalidKind::EmptyVersionList);
                }
            }
            _ => {}
        }
        Ok(())
    }
}

/// Parses the header of the packet at the front of `buf` (the rest of a UDP datagram).
/// `short_dcid_len` is the length of the connection ids the receiver issued: a short header
/// does not carry it (§17.3.1, §5.1).
///
/// The layout of version 1 is applied to every non-zero version (the version-independent
/// part, RFC 8999, ends after the Source Connection ID); callers decide what to do with
/// other versions by looking at `version`.
pub fn parse_header(buf: &[u8], short_dcid_len: usize) -> Result<RefHeader, RefError> {
    let mut r = Rd::new(buf);
    let first = r.u8().map_err(|_| RefError::Malformed(MalformedKind::Empty))?;
    let mut h = RefHeader {
        ty: RefPacketType::Short,
        offset: 0,
        first_byte: first,
        version: None,
        dcid: vec![],
        scid: None,
        token: None,
        length: None,
        pn_offset: None,
        packet_len: 0,
        versions: vec![],
        integrity_tag: None,
        minimal: true,
    };
    if first & 0x80 == 0 {
        // §17.3.1: "Fixed Bit: The next bit (0x40) of byte 0 is set to 1. Packets containing a
        // zero value for this bit are not valid packets in this version and MUST be discarded."
        if first & 0x40 == 0 {
            return Err(RefError::Malformed(MalformedKind::FixedBitZero));
        }
        h.dcid = r.bytes(short_dcid_len)?.to_vec();
        h.pn_offset = Some(r.pos);
        // a short header packet has no length: it extends to the end of the datagram
        h.packet_len = buf.len();
        return Ok(h);
    }

    let version = r.u32()?;
    h.version = Some(version);
    let dcid_len = r.u8()?;
    h.dcid = r.bytes(dcid_len as usize)?.to_vec();
    let scid_len = r.u8()?;
    h.scid = Some(r.bytes(scid_len as usize)?.to_vec());

    if version == 0 {
        // §17.2.1: the 7 bits after Header Form are unused, "Clients MUST ignore the value of
        // this field"; the rest of the datagram is the list of versions
        h.ty = RefPacketType::VersionNegotiation;
        let list = r.rest();
        if list.len() % 4 != 0 {
            return Err(RefError::Malformed(MalformedKind::VersionListNotAligned));
        }
        h.versions = list
            .chunks_exact(4)
            .map(|c| u32::from_be_bytes([c[0], c[1], c[2], c[3]]))
            .collect();
        h.packet_len = buf.len();
        return Ok(h);
    }

    // §17.2: "Fixed Bit: The next bit (0x40) of byte 0 is set to 1, unless the packet is a
    // Version Negotiation packet. Packets containing a zero value for this bit are not valid
    // packets in this version and MUST be discarded."
    if first & 0x40 == 0 {
        return Err(RefError::Malformed(MalformedKind::FixedBitZero));
    }

    h.ty = match (first >> 4) & 0x03 {
        0 => RefPacketType::Initial,
        1 => RefPacketType::ZeroRtt,
        2 => RefPacketType::Handshake,
        _ => RefPacketType::Retry,
    };

    if h.ty == RefPacketType::Retry {
        // §17.2.5: Retry Token (..), Retry Integrity Tag (128): no length, to the end of the datagram
        let rest = r.rest();
        if rest.len() < 16 {
            return Err(RefError::TRUNCATED);
        }
        let (token, tag) = rest.split_at(rest.len() - 16);
        h.token = Some(token.to_vec());
        let mut t = [0u8; 16];
        t.copy_from_slice(tag);
        h.integrity_tag = Some(t);
        h.packet_len = buf.len();
        return Ok(h);
    }

    if h.ty == RefPacketType::Initial {
        let token_len = r.varint()?;
        h.token = Some(r.bytes_u64(token_len)?.to_vec());
    }
    // §17.2: "Length: This is the length of the remainder of the packet (that is, the Packet
    // Number and Payload fields) in bytes, encoded as a variable-length integer"
    let length = r.varint()?;
    h.length = Some(length);
    h.pn_offset = Some(r.pos);
    h.minimal = r.minimal;
    if length > r.remaining() as u64 {
        return Err(RefError::TRUNCATED);
    }
    h.packet_len = r.pos + length as usize;
    Ok(h)
}

/// Splits a UDP datagram into its coalesced packets (§12.2) using the Length fields and
/// returns the headers parsed up to the first error (which is returned alongside).
pub fn parse_datagram_headers_ext(
    buf: &[u8],
    short_dcid_len: usize,
) -> (Vec<RefHeader>, Option<RefError>) {
    let mut out = vec![];
    let mut off = 0;
    while off < buf.len() {
        match parse_header(&buf[off..], short_dcid_len) {
            Ok(mut h) => {
                h.offset = off;
                // packet_len >= 1, so the loop makes progress
                off += h.packet_len;
                out.push(h);
            }
            Err(e) => return (out, Some(e)),
        }
    }
    (out, None)
}

/// Headers of all packets of a datagram up to the first one that cannot be parsed.
pub fn parse_datagram_headers(buf: &[u8], short_dcid_len: usize) -> Vec<RefHeader> {
    parse_datagram_headers_ext(buf, short_dcid_len).0
}

/// Serialises a header followed by `body` (what comes after the header: protected packet
/// number + payload for Initial/0-RTT/Handshake/Short, ignored for Retry and Version
/// Negotiation whose content is entirely described by the header fields).
///
/// Uses `h.first_byte`, `version`, `dcid`, `scid`, `token`, `versions`, `integrity_tag`;
/// the Length field is `body.len()` (`h.length`, `pn_offset`, `packet_len` are outputs of
/// the parser and ignored here). `token_len_bump` / `length_bump` widen those two varints
/// (0 = shortest). Panics if a connection id is longer than 255 bytes.
pub fn encode_header(
    h: &RefHeader,
    body: &[u8],
    token_len_bump: u8,
    length_bump: u8,
    out: &mut Vec<u8>,
) {
    out.push(h.first_byte);
    if h.ty == RefPacketType::Short {
        out.extend_from_slice(&h.dcid);
        out.extend_from_slice(body);
        return;
    }
    out.extend_from_slice(&h.version.unwrap_or(0).to_be_bytes());
    assert!(h.dcid.len() <= 255);
    out.push(h.dcid.len() as u8);
    out.extend_from_slice(&h.dcid);
    let scid = h.scid.as_deref().unwrap_or(&[]);
    assert!(scid.len() <= 255);
    out.push(scid.len() as u8);
    out.extend_from_slice(scid);
    match h.ty {
        RefPacketType::VersionNegotiation => {
            for v in &h.versions {
                out.extend_from_slice(&v.to_be_bytes());
            }
        }
        RefPacketType::Retry => {
            out.extend_from_slice(h.token.as_deref().unwrap_or(&[]));
            out.extend_from_slice(&h.integrity_tag.unwrap_or([0; 16]));
        }
        _ => {
            if h.ty == RefPacketType::Initial {
                let token = h.token.as_deref().unwrap_or(&[]);
                encode_varint_bumped(token.len() as u64, token_len_bump, out);
                out.extend_from_slice(token);
            }
            encode_varint_bumped(body.len() as u64, length_bump, out);
            out.extend_from_slice(body);
        }
    }
}

// ---------------------------------------------------------------------------------------
// Appendix A.2 / A.3

/// RFC 9000 A.2, first half: the number of bytes `EncodePacketNumber` uses.
///
/// ```text
/// EncodePacketNumber(full_pn, largest_acked):
///   // The number of bits must be at least one more
///   // than the base-2 logarithm of the number of contiguous
///   // unacknowledged packet numbers, including the new packet.
///   if largest_acked is None:
///     num_unacked = full_pn + 1
///   else:
///     num_unacked = full_pn - largest_acked
///   min_bits = log(num_unacked, 2) + 1
///   num_bytes = ceil(min_bits / 8)
///   // Encode the integer value and truncate to
///   // the num_bytes least significant bytes.
///   return encode(full_pn, num_bytes)
/// ```
/// `log` is the real-valued logarithm; it is evaluated exactly here. Returns `None` when
/// `num_unacked` is not positive (the pseudocode is undefined there). The result can
/// exceed 4, which a QUIC packet cannot carry.
pub fn encode_packet_number_len(full_pn: u64, largest_acked: Option<u64>) -> Option<usize> {
    let num_unacked: u128 = match largest_acked {
        None => full_pn as u128 + 1,
        Some(la) => {
            if full_pn <= la {
                return None;
            }
            (full_pn - la) as u128
        }
    };
    // f = floor(log2(num_unacked))
    let f = 127 - num_unacked.leading_zeros() as usize;
    let num_bytes = if num_unacked.is_power_of_two() {
        // log is the integer f: ceil((f + 1) / 8)
        (f + 1 + 7) / 8
    } else {
        // f < log < f + 1, so f + 1 < min_bits < f + 2 is not an integer:
        // ceil(min_bits / 8) = floor((f + 1) / 8) + 1
        (f + 1) / 8 + 1
    };
    Some(num_bytes)
}

/// RFC 9000 A.2: `(truncated value, num_bytes)`; `None` if undefined (see
/// [`encode_packet_number_len`]) or if more than 4 bytes would be needed.
pub fn encode_packet_number(full_pn: u64, largest_acked: Option<u64>) -> Option<(u32, usize)> {
    let n = encode_packet_number_len(full_pn, largest_acked)?;
    if n > 4 {
        return None;
    }
    let mask = if n == 4 { u32::MAX as u64 } else { (1u64 << (8 * n)) - 1 };
    Some(((full_pn & mask) as u32, n))
}

/// RFC 9000 A.3, transcribed with unbounded (signed 128-bit) integers:
///
/// ```text
/// DecodePacketNumber(largest_pn, truncated_pn, pn_nbits):
///    expected_pn  = largest_pn + 1
///    pn_win       = 1 << pn_nbits
///    pn_hwin      = pn_win / 2
///    pn_mask      = pn_win - 1
///    // The incoming packet number should be greater than
///    // expected_pn - pn_hwin and less than or equal to
///    // expected_pn + pn_hwin
///    //
///    // This means we cannot just strip the trailing bits from
///    // expected_pn and add the truncated_pn because that might
///    // yield a value outside the window.
///    //
///    // The following code calculates a candidate value and
///    // makes sure it's within the packet number window.
///    // Note the extra checks to prevent overflow and underflow.
///    candidate_pn = (expected_pn & ~pn_mask) | truncated_pn
///    if candidate_pn <= expected_pn - pn_hwin and
///       candidate_pn < (1 << 62) - pn_win:
///       return candidate_pn + pn_win
///    if candidate_pn > expected_pn + pn_hwin and
///       candidate_pn >= pn_win:
///       return candidate_pn - pn_win
///    return candidate_pn
/// ```
/// The result can be 2^62 or more when `largest_pn` is at the very end of the packet
/// number space; such a value is not a packet number and callers have to treat it so.
pub fn decode_packet_number(largest_pn: u64, truncated_pn: u64, pn_nbits: u32) -> u64 {
    // QUIC uses 8, 16, 24 or 32 bits; anything larger is clamped so the shifts below cannot overflow
    let pn_nbits = pn_nbits.min(62);
    let largest_pn = largest_pn as i128;
    let truncated_pn = truncated_pn as i128;
    let expected_pn = largest_pn + 1;
    let pn_win: i128 = 1 << pn_nbits;
    let pn_hwin = pn_win / 2;
    let pn_mask = pn_win - 1;
    let candidate_pn = (expected_pn & !pn_mask) | truncated_pn;
    if candidate_pn <= expected_pn - pn_hwin && candidate_pn < (1i128 << 62) - pn_win {
        return (candidate_pn + pn_win) as u64;
    }
    if candidate_pn > expected_pn + pn_hwin && candidate_pn >= pn_win {
        return (candidate_pn - pn_win) as u64;
    }
    candidate_pn as u64
}

#[cfg(test)]
mod tests {
    use super::*;

    /// A.2: "if an endpoint has received an acknowledgment for packet 0xabe8b3 and is
    /// sending a packet with a number of 0xac5c02, there are 29,519 (0x734f) outstanding
    /// packet numbers. In order to represent at least twice this range (59,038 packets, or
    /// 0xe69e), 16 bits are required. In the same state, sending a packet with a number of
    /// 0xace8fe uses the 24-bit encoding"
    #[test]
    fn a2_examples() {
        assert_eq!(encode_packet_number(0xac5c02, Some(0xabe8b3)), Some((0x5c02, 2)));
        assert_eq!(encode_packet_number(0xace8fe, Some(0xabe8b3)), Some((0xace8fe, 3)));
        assert_eq!(encode_packet_number_len(0, None), Some(1));
        // num_unacked = 128 = 2^7: min_bits = 8 -> one byte; 129 -> two bytes
        assert_eq!(encode_packet_number_len(128, Some(0)), Some(1));
        assert_eq!(encode_packet_number_len(129, Some(0)), Some(2));
        assert_eq!(encode_packet_number_len(127, Some(0)), Some(1));
        assert_eq!(encode_packet_number_len(1 << 15, Some(0)), Some(2));
        assert_eq!(encode_packet_number_len((1 << 15) + 1, Some(0)), Some(3));
        assert_eq!(encode_packet_number_len(1 << 31, Some(0)), Some(4));
        assert_eq!(encode_packet_number_len((1 << 31) + 1, Some(0)), Some(5));
        assert_eq!(encode_packet_number((1 << 31) + 1, Some(0)), None);
        assert_eq!(encode_packet_number_len(5, Some(5)), None);
    }

    /// A.3: "if the highest successfully authenticated packet had a packet number of
    /// 0xa82f30ea, then a packet containing a 16-bit value of 0x9b32 will be decoded as
    /// 0xa82f9b32."
    #[test]
    fn a3_example() {
        assert_eq!(decode_packet_number(0xa82f30ea, 0x9b32, 16), 0xa82f9b32);
        // window edges
        assert_eq!(decode_packet_number(0, 0, 8), 0);
        assert_eq!(decode_packet_number(0, 0xff, 8), 0xff);
        assert_eq!(decode_packet_number(0x1ff, 0x00, 8), 0x200);
        assert_eq!(decode_packet_number(0x17f, 0xff, 8), 0x1ff);
        assert_eq!(decode_packet_number(0x17f, 0x00, 8), 0x200);
        assert_eq!(decode_packet_number(0x180, 0x00, 8), 0x200);
        assert_eq!(decode_packet_number(0x200, 0xff, 8), 0x1ff);
    }

    #[test]
    fn encode_then_decode_recovers() {
        let mut s = 1u64;
        for _ in 0..200_000 {
            s = s.wrapping_mul(6364136223846793005).wrapping_add(1442695040888963407);
            let la = (s >> 2) % ((1 << 62) - (1 << 33));
            s = s.wrapping_mul(6364136223846793005).wrapping_add(1442695040888963407);
            let d = 1 + (s >> 33) % (1 << 31);
            let pn = la + d;
            let (t, n) = encode_packet_number(pn, Some(la)).unwrap();
            // any largest received pn in [la, pn) decodes correctly
            assert_eq!(decode_packet_number(la, t as u64, 8 * n as u32), pn, "la={la} pn={pn}");
            assert_eq!(decode_packet_number(pn - 1, t as u64, 8 * n as u32), pn);
        }
    }

    fn hdr(ty: RefPacketType, first: u8) -> RefHeader {
        RefHeader {
            ty,
            offset: 0,
            first_byte: first,
            version: Some(QUIC_V1),
            dcid: vec![1, 2, 3, 4, 5, 6, 7, 8],
            scid: Some(vec![9, 9]),
            token: None,
            length: None,
            pn_offset: None,
            packet_len: 0,
            versions: vec![],
            integrity_tag: None,
            minimal: true,
        }
    }

    #[test]
    fn long_header_round_trip_and_coalescing() {
        let mut ini = hdr(RefPacketType::Initial, 0xc3);
        ini.token = Some(vec![0xaa; 5]);
        let hs = hdr(RefPacketType::Handshake, 0xe1);
        let mut sh = hdr(RefPacketType::Short, 0x41);
        sh.version = None;
        sh.scid = None;
        let mut dg = vec![];
        encode_header(&ini, &[7; 30], 0, 0, &mut dg);
        let first_len = dg.len();
        encode_header(&hs, &[8; 25], 0, 1, &mut dg);
        let second_end = dg.len();
        encode_header(&sh, &[9; 20], 0, 0, &mut dg);

        let (hs_parsed, err) = parse_datagram_headers_ext(&dg, 8);
        assert_eq!(err, None);
        assert_eq!(hs_parsed.len(), 3);
        let p = &hs_parsed[0];
        assert_eq!(p.ty, RefPacketType::Initial);
        assert_eq!(p.version, Some(1));
        assert_eq!(p.dcid, ini.dcid);
        assert_eq!(p.scid, ini.scid);
        assert_eq!(p.token, ini.token);
        assert_eq!(p.length, Some(30));
        // 1 + 4 + 1 + 8 + 1 + 2 + 1 + 5 + 1
        assert_eq!(p.pn_offset, Some(24));
        assert_eq!(p.packet_len, first_len);
        assert!(p.minimal);
        let p = &hs_parsed[1];
        assert_eq!((p.ty, p.offset, p.length), (RefPacketType::Handshake, first_len, Some(25)));
        assert_eq!(p.packet_len, second_end - first_len);
        assert!(!p.minimal);
        let p = &hs_parsed[2];
        assert_eq!((p.ty, p.offset, p.pn_offset), (RefPacketType::Short, second_end, Some(9)));
        assert_eq!(p.dcid, sh.dcid);
        assert_eq!(p.packet_len, 29);

        // a Length beyond the datagram is a truncated packet
        let cut = &dg[..first_len - 1];
        assert_eq!(parse_header(cut, 8), Err(RefError::TRUNCATED));
    }

    #[test]
    fn retry_vn_and_rules() {
        let mut re = hdr(RefPacketType::Retry, 0xf0);
        re.token = Some(b"token".to_vec());
        re.integrity_tag = Some([0x5a; 16]);
        let mut b = vec![];
        encode_header(&re, &[], 0, 0, &mut b);
        let p = parse_header(&b, 0).unwrap();
        assert_eq!(p.ty, RefPacketType::Retry);
        assert_eq!(p.token.as_deref(), Some(&b"token"[..]));
        assert_eq!(p.integrity_tag, Some([0x5a; 16]));
        assert_eq!((p.pn_offset, p.packet_len), (None, b.len()));
        assert_eq!(p.validate(), Ok(()));
        re.token = Some(vec![]);
        let mut b = vec![];
        encode_header(&re, &[], 0, 0, &mut b);
        assert_eq!(parse_header(&b, 0).unwrap().validate(), Err(InvalidKind::EmptyRetryToken));
        assert_eq!(parse_header(&b[..b.len() - 1], 0), Err(RefError::TRUNCATED));

        let mut vn = hdr(RefPacketType::VersionNegotiation, 0x8a);
        vn.version = Some(0);
        vn.versions = vec![1, 0xff00_001d];
        let mut b = vec![];
        encode_header(&vn, &[], 0, 0, &mut b);
        let p = parse_header(&b, 0).unwrap();
        assert_eq!(p.ty, RefPacketType::VersionNegotiation);
        assert_eq!(p.versions, vn.versions);
        b.push(0);
        assert_eq!(parse_header(&b, 0), Err(RefError::Malformed(MalformedKind::VersionListNotAligned)));

        // connection id of 21 bytes in a version 1 long header
        let mut hs = hdr(RefPacketType::Handshake, 0xe0);
        hs.dcid = vec![0; 21];
        let mut b = vec![];
        encode_header(&hs, &[0; 20], 0, 0, &mut b);
        assert_eq!(parse_header(&b, 0).unwrap().validate(), Err(InvalidKind::ConnectionIdTooLong));
        // fixed bit
        b[0] = 0xa0;
        assert_eq!(parse_header(&b, 0), Err(RefError::Malformed(MalformedKind::FixedBitZero)));
        assert_eq!(parse_header(&[0x3f, 1, 2, 3], 2), Err(RefError::Malformed(MalformedKind::FixedBitZero)));
        assert_eq!(parse_header(&[], 2), Err(RefError::Malformed(MalformedKind::Empty)));
        assert_eq!(parse_header(&[0x40, 1], 2), Err(RefError::TRUNCATED));
    }

    #[test]
    fn never_panics_on_noise() {
        let mut s = 3u64;
        for _ in 0..200_000 {
            let mut b = vec![];
            s = s.wrapping_mul(6364136223846793005).wrapping_add(1442695040888963407);
            let n = (s >> 40) % 60;
            for _ in 0..n {
                s = s.wrapping_mul(6364136223846793005).wrapping_add(1442695040888963407);
                b.push((s >> 33) as u8);
            }
            let _ = parse_datagram_headers(&b, (s % 21) as usize);
        }
    }
}
