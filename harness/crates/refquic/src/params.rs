//! RFC 9000 §18 transport parameters (+ RFC 9221 §3 max_datagram_frame_size).
//!
//! ```text
//! Transport Parameters { Transport Parameter (..) ... }
//! Transport Parameter {
//!   Transport Parameter ID (i),
//!   Transport Parameter Length (i),
//!   Transport Parameter Value (..),
//! }
//! ```
//! §18.2: "Those transport parameters that are identified as integers use a
//! variable-length integer encoding; see Section 16."

use crate::varint::{decode_varint, encode_varint, encode_varint_bumped, VARINT_MAX};
use crate::{MalformedKind, Rd, RefError};
use serde::{Deserialize, Serialize};

pub const ORIGINAL_DESTINATION_CONNECTION_ID: u64 = 0x00;
pub const MAX_IDLE_TIMEOUT: u64 = 0x01;
pub const STATELESS_RESET_TOKEN: u64 = 0x02;
pub const MAX_UDP_PAYLOAD_SIZE: u64 = 0x03;
pub const INITIAL_MAX_DATA: u64 = 0x04;
pub const INITIAL_MAX_STREAM_DATA_BIDI_LOCAL: u64 = 0x05;
pub const INITIAL_MAX_STREAM_DATA_BIDI_REMOTE: u64 = 0x06;
pub const INITIAL_MAX_STREAM_DATA_UNI: u64 = 0x07;
pub const INITIAL_MAX_STREAMS_BIDI: u64 = 0x08;
pub const INITIAL_MAX_STREAMS_UNI: u64 = 0x09;
pub const ACK_DELAY_EXPONENT: u64 = 0x0a;
pub const MAX_ACK_DELAY: u64 = 0x0b;
pub const DISABLE_ACTIVE_MIGRATION: u64 = 0x0c;
pub const PREFERRED_ADDRESS: u64 = 0x0d;
pub const ACTIVE_CONNECTION_ID_LIMIT: u64 = 0x0e;
pub const INITIAL_SOURCE_CONNECTION_ID: u64 = 0x0f;
pub const RETRY_SOURCE_CONNECTION_ID: u64 = 0x10;
/// RFC 9221 §3
pub const MAX_DATAGRAM_FRAME_SIZE: u64 = 0x20;

/// ids of all parameters RFC 9000 / RFC 9221 define
pub const KNOWN_IDS: [u64; 18] = [
    0x00, 0x01, 0x02, 0x03, 0x04, 0x05, 0x06, 0x07, 0x08, 0x09, 0x0a, 0x0b, 0x0c, 0x0d, 0x0e,
    0x0f, 0x10, 0x20,
];

/// ids whose value is a single variable-length integer
pub const INTEGER_IDS: [u64; 12] =
    [0x01, 0x03, 0x04, 0x05, 0x06, 0x07, 0x08, 0x09, 0x0a, 0x0b, 0x0e, 0x20];

/// Who sent the block.
#[derive(Debug, Clone, Copy, PartialEq, Eq, Hash, Serialize, Deserialize)]
pub enum Role {
    Client,
    Server,
}

/// Raw TLV decode: the list of `(id, value)` in wire order, duplicates and unknown ids
/// included. Fails only if the byte string is not a sequence of complete TLVs.
pub fn parse_transport_params(buf: &[u8]) -> Result<Vec<(u64, Vec<u8>)>, RefError> {
    let mut r = Rd::new(buf);
    let mut out = vec![];
    while r.remaining() > 0 {
        let id = r.varint()?;
        let len = r.varint()?;
        out.push((id, r.bytes_u64(len)?.to_vec()));
    }
    Ok(out)
}

/// Serialises raw TLVs in the given order (any ids, duplicates allowed), shortest varints.
pub fn encode_transport_params(tlvs: &[(u64, Vec<u8>)], out: &mut Vec<u8>) {
    encode_transport_params_opts(tlvs, &[], out)
}

/// As [`encode_transport_params`]; the i-th varint written (id and length alternate) is
/// widened by `bumps[i % bumps.len()]` doublings (see `frame::EncodeOpts`).
pub fn encode_transport_params_opts(tlvs: &[(u64, Vec<u8>)], bumps: &[u8], out: &mut Vec<u8>) {
    let mut i = 0;
    let mut bump = || {
        let b = if bumps.is_empty() { 0 } else { bumps[i % bumps.len()] };
        i += 1;
        b
    };
    for (id, value) in tlvs {
        encode_varint_bumped(*id, bump(), out);
        encode_varint_bumped(value.len() as u64, bump(), out);
        out.extend_from_slice(value);
    }
}

/// value bytes of an integer parameter (shortest form)
pub fn int_value(v: u64) -> Vec<u8> {
    let mut out = vec![];
    encode_varint(v, &mut out);
    out
}

/// §18.2 preferred_address:
/// IPv4 Address (32), IPv4 Port (16), IPv6 Address (128), IPv6 Port (16),
/// Connection ID Length (8), Connection ID (..), Stateless Reset Token (128)
#[derive(Debug, Clone, PartialEq, Eq, Hash, Serialize, Deserialize)]
pub struct RefPreferredAddress {
    pub ipv4: [u8; 4],
    pub ipv4_port: u16,
    pub ipv6: [u8; 16],
    pub ipv6_port: u16,
    pub cid: Vec<u8>,
    pub reset_token: [u8; 16],
}

impl RefPreferredAddress {
    pub fn encode(&self) -> Vec<u8> {
        let mut v = vec![];
        v.extend_from_slice(&self.ipv4);
        v.extend_from_slice(&self.ipv4_port.to_be_bytes());
        v.extend_from_slice(&self.ipv6);
        v.extend_from_slice(&self.ipv6_port.to_be_bytes());
        assert!(self.cid.len() <= 255);
        v.push(self.cid.len() as u8);
        v.extend_from_slice(&self.cid);
        v.extend_from_slice(&self.reset_token);
        v
    }
}

/// Typed view of a parameter block with the defaults of §18.2 filled in.
#[derive(Debug, Clone, PartialEq, Eq, Hash, Serialize, Deserialize)]
pub struct RefParams {
    pub original_destination_connection_id: Option<Vec<u8>>,
    /// milliseconds; default 0 (= no timeout)
    pub max_idle_timeout: u64,
    pub stateless_reset_token: Option<[u8; 16]>,
    /// default 65527
    pub max_udp_payload_size: u64,
    pub initial_max_data: u64,
    pub initial_max_stream_data_bidi_local: u64,
    pub initial_max_stream_data_bidi_remote: u64,
    pub initial_max_stream_data_uni: u64,
    pub initial_max_streams_bidi: u64,
    pub initial_max_streams_uni: u64,
    /// default 3
    pub ack_delay_exponent: u64,
    /// milliseconds; default 25
    pub max_ack_delay: u64,
    pub disable_active_migration: bool,
    pub preferred_address: Option<RefPreferredAddress>,
    /// default 2
    pub active_connection_id_limit: u64,
    pub initial_source_connection_id: Option<Vec<u8>>,
    pub retry_source_connection_id: Option<Vec<u8>>,
    /// RFC 9221 §3: "The default for this parameter is 0, which indicates that the endpoint
    /// does not support DATAGRAM frames."
    pub max_datagram_frame_size: u64,
    /// parameters with ids this RFC does not define, in wire order (§7.4.2: to be ignored)
    pub unknown: Vec<(u64, Vec<u8>)>,
    /// ids of known parameters that occurred more than once (the first occurrence is the
    /// one reported above). §7.4: "An endpoint MUST NOT send a parameter more than once";
    /// receivers SHOULD treat it as TRANSPORT_PARAMETER_ERROR.
    pub duplicates: Vec<u64>,
}

impl Default for RefParams {
    fn default() -> Self {
        RefParams {
            original_destination_connection_id: None,
            max_idle_timeout: 0,
            stateless_reset_token: None,
            max_udp_payload_size: 65527,
            initial_max_data: 0,
            initial_max_stream_data_bidi_local: 0,
            initial_max_stream_data_bidi_remote: 0,
            initial_max_stream_data_uni: 0,
            initial_max_streams_bidi: 0,
            initial_max_streams_uni: 0,
            ack_delay_exponent: 3,
            max_ack_delay: 25,
            disable_active_migration: false,
            preferred_address: None,
            active_connection_id_limit: 2,
            initial_source_connection_id: None,
            retry_source_connection_id: None,
            max_datagram_frame_size: 0,
            unknown: vec![],
            duplicates: vec![],
        }
    }
}

fn whole_varint(id: u64, value: &[u8]) -> Result<u64, RefError> {
    match decode_varint(value) {
        Ok((v, n)) if n == value.len() => Ok(v),
        _ => Err(RefError::Malformed(MalformedKind::ParameterValueFormat(id))),
    }
}

fn token16(id: u64, value: &[u8]) -> Result<[u8; 16], RefError> {
    if value.len() != 16 {
        return Err(RefError::Malformed(MalformedKind::ParameterValueFormat(id)));
    }
    let mut t = [0u8; 16];
    t.copy_from_slice(value);
    Ok(t)
}

impl RefParams {
    pub fn parse(buf: &[u8]) -> Result<RefParams, RefError> {
        RefParams::from_tlvs(&parse_transport_params(buf)?)
    }

    /// Interprets the values of the known parameters. Fails with
    /// `Malformed(ParameterValueFormat(id))` if a value does not have the format §18.2
    /// defines for that id (value *ranges* are the business of [`RefParams::range_violations`]).
    pub fn from_tlvs(tlvs: &[(u64, Vec<u8>)]) -> Result<RefParams, RefError> {
        let mut p = RefParams::default();
        let mut seen: Vec<u64> = vec![];
        for (id, value) in tlvs {
            let id = *id;
            if !KNOWN_IDS.contains(&id) {
                p.unknown.push((id, value.clone()));
                continue;
            }
            let dup = seen.contains(&id);
            if dup {
                if !p.duplicates.contains(&id) {
                    p.duplicates.push(id);
                }
            } else {
                seen.push(id);
            }
            // the format of a duplicate is checked as well, its value is not used
            let mut scratch = RefParams::default();
            let q = if dup { &mut scratch } else { &mut p };
            match id {
                ORIGINAL_DESTINATION_CONNECTION_ID => {
                    q.original_destination_connection_id = Some(value.clone())
                }
                MAX_IDLE_TIMEOUT => q.max_idle_timeout = whole_varint(id, value)?,
                STATELESS_RESET_TOKEN => q.stateless_reset_token = Some(token16(id, value)?),
                MAX_UDP_PAYLOAD_SIZE => q.max_udp_payload_size = whole_varint(id, value)?,
                INITIAL_MAX_DATA => q.initial_max_data = whole_varint(id, value)?,
                INITIAL_MAX_STREAM_DATA_BIDI_LOCAL => {
                    q.initial_max_stream_data_bidi_local = whole_varint(id, value)?
                }
                INITIAL_MAX_STREAM_DATA_BIDI_REMOTE => {
                    q.initial_max_stream_data_bidi_remote = whole_varint(id, value)?
                }
                INITIAL_MAX_STREAM_DATA_UNI => {
                    q.initial_max_stream_data_uni = whole_varint(id, value)?
                }
                INITIAL_MAX_STREAMS_BIDI => q.initial_max_streams_bidi = whole_varint(id, value)?,
                INITIAL_MAX_STREAMS_UNI => q.initial_max_streams_uni = whole_varint(id, value)?,
                ACK_DELAY_EXPONENT => q.ack_delay_exponent = whole_varint(id, value)?,
                MAX_ACK_DELAY => q.max_ack_delay = whole_varint(id, value)?,
                DISABLE_ACTIVE_MIGRATION => {
                    // "This parameter is a zero-length value."
                    if !value.is_empty() {
                        return Err(RefError::Malformed(MalformedKind::ParameterValueFormat(id)));
                    }
                    q.disable_active_migration = true;
                }
                PREFERRED_ADDRESS => {
                    let bad = RefError::Malformed(MalformedKind::ParameterValueFormat(id));
                    let mut r = Rd::new(value);
                    let mut pa = RefPreferredAddress {
                        ipv4: [0; 4],
                        ipv4_port: 0,
                        ipv6: [0; 16],
                        ipv6_port: 0,
                        cid: vec![],
                        reset_token: [0; 16],
                    };
                    pa.ipv4.copy_from_slice(r.bytes(4).map_err(|_| bad)?);
                    pa.ipv4_port = r.u16().map_err(|_| bad)?;
                    pa.ipv6.copy_from_slice(r.bytes(16).map_err(|_| bad)?);
                    pa.ipv6_port = r.u16().map_err(|_| bad)?;
                    let n = r.u8().map_err(|_| bad)?;
                    pa.cid = r.bytes(n as usize).map_err(|_| bad)?.to_vec();
                    pa.reset_token.copy_from_slice(r.bytes(16).map_err(|_| bad)?);
                    if r.remaining() != 0 {
                        return Err(bad);
                    }
                    q.preferred_address = Some(pa);
                }
                ACTIVE_CONNECTION_ID_LIMIT => {
                    q.active_connection_id_limit = whole_varint(id, value)?
                }
                INITIAL_SOURCE_CONNECTION_ID => q.initial_source_connection_id = Some(value.clone()),
                RETRY_SOURCE_CONNECTION_ID => q.retry_source_connection_id = Some(value.clone()),
                MAX_DATAGRAM_FRAME_SIZE => q.max_datagram_frame_size = whole_varint(id, value)?,
                _ => unreachable!("KNOWN_IDS and the match arms list the same ids"),
            }
        }
        Ok(p)
    }

    /// The value-range and role rules of §18.2 that this block violates when it was sent by
    /// `sender` (names of the offending parameters; empty = acceptable).
    pub fn range_violations(&self, sender: Role) -> Vec<&'static str> {
        let mut v = vec![];
        if !self.duplicates.is_empty() {
            v.push("duplicate");
        }
        // "A client MUST NOT include any server-only transport parameter:
        // original_destination_connection_id, preferred_address, retry_source_connection_id,
        // or stateless_reset_token."
        if sender == Role::Client {
            if self.original_destination_connection_id.is_some() {
                v.push("original_destination_connection_id");
            }
            if self.preferred_address.is_some() {
                v.push("preferred_address");
            }
            if self.retry_source_connection_id.is_some() {
                v.push("retry_source_connection_id");
            }
            if self.stateless_reset_token.is_some() {
                v.push("stateless_reset_token");
            }
        }
        // "Values below 1200 are invalid." (and a UDP payload cannot exceed 65527)
        if self.max_udp_payload_size < 1200 || self.max_udp_payload_size > 65527 {
            v.push("max_udp_payload_size");
        }
        // "Values above 20 are invalid."
        if self.ack_delay_exponent > 20 {
            v.push("ack_delay_exponent");
        }
        // "Values of 2^14 or greater are invalid."
        if self.max_ack_delay >= 1 << 14 {
            v.push("max_ack_delay");
        }
        // "The value of the active_connection_id_limit parameter MUST be at least 2."
        if self.active_connection_id_limit < 2 {
            v.push("active_connection_id_limit");
        }
        // "If a max_streams transport parameter ... is received with a value greater than
        // 2^60 ... the connection MUST be closed"
        if self.initial_max_streams_bidi > 1 << 60 {
            v.push("initial_max_streams_bidi");
        }
        if self.initial_max_streams_uni > 1 << 60 {
            v.push("initial_max_streams_uni");
        }
        for (name, cid) in [
            ("original_destination_connection_id", &self.original_destination_connection_id),
            ("initial_source_connection_id", &self.initial_source_connection_id),
            ("retry_source_connection_id", &self.retry_source_connection_id),
        ] {
            if cid.as_ref().map_or(false, |c| c.len() > 20) {
                v.push(name);
            }
        }
        if let Some(pa) = &self.preferred_address {
            // the connection id of a preferred address is one a NEW_CONNECTION_ID frame
            // could carry: 1..=20 bytes (§18.2, §19.15)
            if pa.cid.is_empty() || pa.cid.len() > 20 {
                v.push("preferred_address.cid");
            }
        }
        v
    }

    /// The shortest TLV list that yields `self` (known parameters in id order, each only
    /// if it differs from its default, then the unknown ones).
    pub fn to_tlvs(&self) -> Vec<(u64, Vec<u8>)> {
        let d = RefParams::default();
        let mut t: Vec<(u64, Vec<u8>)> = vec![];
        if let Some(c) = &self.original_destination_connection_id {
            t.push((ORIGINAL_DESTINATION_CONNECTION_ID, c.clone()));
        }
        let mut int = |id: u64, v: u64, dv: u64| {
            if v != dv {
                assert!(v <= VARINT_MAX);
                t.push((id, int_value(v)));
            }
        };
        int(MAX_IDLE_TIMEOUT, self.max_idle_timeout, d.max_idle_timeout);
        int(MAX_UDP_PAYLOAD_SIZE, self.max_udp_payload_size, d.max_udp_payload_size);
        int(INITIAL_MAX_DATA, self.initial_max_data, 0);
        int(INITIAL_MAX_STREAM_DATA_BIDI_LOCAL, self.initial_max_stream_data_bidi_local, 0);
        int(INITIAL_MAX_STREAM_DATA_BIDI_REMOTE, self.initial_max_stream_data_bidi_remote, 0);
        int(INITIAL_MAX_STREAM_DATA_UNI, self.initial_max_stream_data_uni, 0);
        int(INITIAL_MAX_STREAMS_BIDI, self.initial_max_streams_bidi, 0);
        int(INITIAL_MAX_STREAMS_UNI, self.initial_max_streams_uni, 0);
        int(ACK_DELAY_EXPONENT, self.ack_delay_exponent, d.ack_delay_exponent);
        int(MAX_ACK_DELAY, self.max_ack_delay, d.max_ack_delay);
        int(ACTIVE_CONNECTION_ID_LIMIT, self.active_connection_id_limit, d.active_connection_id_limit);
        int(MAX_DATAGRAM_FRAME_SIZE, self.max_datagram_frame_size, 0);
        if let Some(tok) = &self.stateless_reset_token {
            t.push((STATELESS_RESET_TOKEN, tok.to_vec()));
        }
        if self.disable_active_migration {
            t.push((DISABLE_ACTIVE_MIGRATION, vec![]));
        }
        if let Some(pa) = &self.preferred_address {
            t.push((PREFERRED_ADDRESS, pa.encode()));
        }
        if let Some(c) = &self.initial_source_connection_id {
            t.push((INITIAL_SOURCE_CONNECTION_ID, c.clone()));
        }
        if let Some(c) = &self.retry_source_connection_id {
            t.push((RETRY_SOURCE_CONNECTION_ID, c.clone()));
        }
        t.sort_by_key(|(id, _)| *id);
        t.extend(self.unknown.iter().cloned());
        t
    }
}

#[cfg(test)]
mod tests {
    use super::*;

    #[test]
    fn tlv_round_trip_any_order_and_duplicates() {
        let tlvs = vec![
            (0x0e, int_value(4)),
            (0x3a7f, vec![1, 2, 3]),
            (0x01, int_value(30_000)),
            (0x0e, int_value(9)),
            (0x0c, vec![]),
            (0x20, int_value(65535)),
        ];
        let mut b = vec![];
        encode_transport_params(&tlvs, &mut b);
        assert_eq!(parse_transport_params(&b), Ok(tlvs.clone()));
        let mut wide = vec![];
        encode_transport_params_opts(&tlvs, &[1, 3, 0, 2], &mut wide);
        assert!(wide.len() > b.len());
        assert_eq!(parse_transport_params(&wide), Ok(tlvs.clone()));
        for cut in 1..b.len() {
            // a cut inside a TLV is malformed; a cut between TLVs is a shorter valid block
            match parse_transport_params(&b[..cut]) {
                Ok(t) => assert_eq!(t[..], tlvs[..t.len()]),
                Err(e) => assert_eq!(e, RefError::TRUNCATED),
            }
        }

        let p = RefParams::from_tlvs(&tlvs).unwrap();
        assert_eq!(p.active_connection_id_limit, 4);
        assert_eq!(p.duplicates, vec![0x0e]);
        assert_eq!(p.max_idle_timeout, 30_000);
        assert!(p.disable_active_migration);
        assert_eq!(p.max_datagram_frame_size, 65535);
        assert_eq!(p.unknown, vec![(0x3a7f, vec![1, 2, 3])]);
        assert_eq!(p.max_udp_payload_size, 65527);
        assert_eq!(p.ack_delay_exponent, 3);
        assert_eq!(p.max_ack_delay, 25);
        assert_eq!(p.range_violations(Role::Client), vec!["duplicate"]);
    }

    #[test]
    fn typed_round_trip_and_formats() {
        let p = RefParams {
            original_destination_connection_id: Some(vec![1; 8]),
            max_idle_timeout: 5,
            stateless_reset_token: Some([7; 16]),
            max_udp_payload_size: 1200,
            initial_max_data: 1 << 40,
            initial_max_stream_data_bidi_local: 1,
            initial_max_stream_data_bidi_remote: 2,
            initial_max_stream_data_uni: 3,
            initial_max_streams_bidi: 4,
            initial_max_streams_uni: 5,
            ack_delay_exponent: 20,
            max_ack_delay: 16383,
            disable_active_migration: true,
            preferred_address: Some(RefPreferredAddress {
                ipv4: [10, 0, 0, 1],
                ipv4_port: 443,
                ipv6: [0xfe; 16],
                ipv6_port: 8443,
                cid: vec![9; 5],
                reset_token: [3; 16],
            }),
            active_connection_id_limit: 8,
            initial_source_connection_id: Some(vec![]),
            retry_source_connection_id: Some(vec![2; 20]),
            max_datagram_frame_size: 1500,
            unknown: vec![(0xdc0000, vec![1])],
            duplicates: vec![],
        };
        let mut b = vec![];
        encode_transport_params(&p.to_tlvs(), &mut b);
        assert_eq!(RefParams::parse(&b), Ok(p.clone()));
        assert!(p.range_violations(Role::Server).is_empty());
        assert_eq!(
            p.range_violations(Role::Client),
            vec![
                "original_destination_connection_id",
                "preferred_address",
                "retry_source_connection_id",
                "stateless_reset_token"
            ]
        );
        assert_eq!(RefParams::parse(&[]), Ok(RefParams::default()));

        let fmt = |id| Err(RefError::Malformed(MalformedKind::ParameterValueFormat(id)));
        // integer with trailing byte / truncated varint / empty
        assert_eq!(RefParams::from_tlvs(&[(0x04, vec![0x01, 0x00])]), fmt(0x04));
        assert_eq!(RefParams::from_tlvs(&[(0x04, vec![0x40])]), fmt(0x04));
        assert_eq!(RefParams::from_tlvs(&[(0x0a, vec![])]), fmt(0x0a));
        // non-minimal integer is fine (§16)
        assert_eq!(RefParams::from_tlvs(&[(0x0a, vec![0x40, 0x05])]).unwrap().ack_delay_exponent, 5);
        assert_eq!(RefParams::from_tlvs(&[(0x02, vec![0; 15])]), fmt(0x02));
        assert_eq!(RefParams::from_tlvs(&[(0x0c, vec![0])]), fmt(0x0c));
        let mut pa = p.preferred_address.clone().unwrap().encode();
        pa.push(0);
        assert_eq!(RefParams::from_tlvs(&[(0x0d, pa.clone())]), fmt(0x0d));
        pa.truncate(pa.len() - 2);
        assert_eq!(RefParams::from_tlvs(&[(0x0d, pa)]), fmt(0x0d));
        // ranges
        let mut q = RefParams::default();
        q.max_ack_delay = 1 << 14;
        q.max_udp_payload_size = 1199;
        q.active_connection_id_limit = 1;
        q.ack_delay_exponent = 21;
        q.initial_max_streams_uni = (1 << 60) + 1;
        assert_eq!(
            q.range_violations(Role::Server),
            vec![
                "max_udp_payload_size",
                "ack_delay_exponent",
                "max_ack_delay",
                "active_connection_id_limit",
                "initial_max_streams_uni"
            ]
        );
    }
}
