//! RFC 9000 §16 — variable-length integer encoding.
//!
//! ```text
//!   2MSB  Length  Usable Bits  Range
//!   00    1       6            0-63
//!   01    2       14           0-16383
//!   10    4       30           0-1073741823
//!   11    8       62           0-4611686018427387903
//! ```
//! "The QUIC variable-length integer encoding reserves the two most significant bits of the
//! first byte to encode the base-2 logarithm of the integer encoding length in bytes. The
//! integer value is encoded on the remaining bits, in network byte order."
//! "Values do not need to be encoded on the minimum number of bytes necessary, with the
//! sole exception of the Frame Type field."

use crate::{MalformedKind, RefError};

pub const VARINT_MAX: u64 = (1 << 62) - 1;

/// Decodes one varint from the front of `buf`; returns the value and the number of bytes
/// it occupied (1, 2, 4 or 8), so that non-minimal encodings can be recognised with
/// [`is_minimal`].
pub fn decode_varint(buf: &[u8]) -> Result<(u64, usize), RefError> {
    let first = *buf.first().ok_or(RefError::Malformed(MalformedKind::Truncated))?;
    let len = 1usize << (first >> 6);
    if buf.len() < len {
        return Err(RefError::TRUNCATED);
    }
    let mut v = (first & 0x3f) as u64;
    for b in &buf[1..len] {
        v = (v << 8) | *b as u64;
    }
    Ok((v, len))
}

/// length of the shortest encoding of `v` (`v` must be <= VARINT_MAX)
pub fn varint_len(v: u64) -> usize {
    if v <= 63 {
        1
    } else if v <= 16383 {
        2
    } else if v <= 1_073_741_823 {
        4
    } else {
        8
    }
}

pub fn is_minimal(v: u64, encoded_len: usize) -> bool {
    varint_len(v) == encoded_len
}

/// Appends the shortest encoding of `v`.
///
/// Panics if `v > VARINT_MAX` (encoder misuse; decoders of this crate never panic).
pub fn encode_varint(v: u64, out: &mut Vec<u8>) {
    assert!(v <= VARINT_MAX, "varint out of range: {v}");
    let ok = encode_varint_width(v, varint_len(v), out);
    debug_assert!(ok);
}

/// Appends `v` encoded on exactly `width` bytes (1, 2, 4 or 8). Returns false (and writes
/// nothing) if `v` does not fit that width or the width is not one of the four.
pub fn encode_varint_width(v: u64, width: usize, out: &mut Vec<u8>) -> bool {
    let (prefix, bits): (u8, u32) = match width {
        1 => (0b00, 6),
        2 => (0b01, 14),
        4 => (0b10, 30),
        8 => (0b11, 62),
        _ => return false,
    };
    if v >> bits != 0 {
        return false;
    }
    let be = v.to_be_bytes();
    let start = out.len();
    out.extend_from_slice(&be[8 - width..]);
    out[start] |= prefix << 6;
    true
}

/// Encodes `v` on `varint_len(v) << bump` bytes, saturating at 8 (bump 0 = minimal).
pub(crate) fn encode_varint_bumped(v: u64, bump: u8, out: &mut Vec<u8>) {
    let min = varint_len(v);
    let width = (min << (bump.min(3) as usize)).min(8);
    let ok = encode_varint_width(v, width, out);
    assert!(ok, "varint out of range: {v}");
}

#[cfg(test)]
mod tests {
    use super::*;

    /// RFC 9000 Appendix A.1 examples
    #[test]
    fn rfc_examples() {
        assert_eq!(
            decode_varint(&[0xc2, 0x19, 0x7c, 0x5e, 0xff, 0x14, 0xe8, 0x8c]),
            Ok((151_288_809_941_952_652, 8))
        );
        assert_eq!(decode_varint(&[0x9d, 0x7f, 0x3e, 0x7d]), Ok((494_878_333, 4)));
        assert_eq!(decode_varint(&[0x7b, 0xbd]), Ok((15_293, 2)));
        assert_eq!(decode_varint(&[0x25]), Ok((37, 1)));
        // "the two-byte sequence 0x4025 also decodes to 37"
        assert_eq!(decode_varint(&[0x40, 0x25]), Ok((37, 2)));
        assert!(!is_minimal(37, 2));

        let mut out = vec![];
        encode_varint(151_288_809_941_952_652, &mut out);
        assert_eq!(out, [0xc2, 0x19, 0x7c, 0x5e, 0xff, 0x14, 0xe8, 0x8c]);
        out.clear();
        encode_varint(494_878_333, &mut out);
        assert_eq!(out, [0x9d, 0x7f, 0x3e, 0x7d]);
        out.clear();
        encode_varint(15_293, &mut out);
        assert_eq!(out, [0x7b, 0xbd]);
        out.clear();
        encode_varint(37, &mut out);
        assert_eq!(out, [0x25]);
        out.clear();
        assert!(encode_varint_width(37, 2, &mut out));
        assert_eq!(out, [0x40, 0x25]);
    }

    #[test]
    fn boundaries_round_trip() {
        for &(v, len) in &[
            (0u64, 1usize),
            (63, 1),
            (64, 2),
            (16383, 2),
            (16384, 4),
            ((1 << 30) - 1, 4),
            (1 << 30, 8),
            (VARINT_MAX, 8),
        ] {
            let mut out = vec![];
            encode_varint(v, &mut out);
            assert_eq!(out.len(), len, "{v}");
            assert_eq!(decode_varint(&out), Ok((v, len)));
            for w in [1usize, 2, 4, 8] {
                let mut o = vec![];
                let fits = encode_varint_width(v, w, &mut o);
                assert_eq!(fits, w >= len, "{v} width {w}");
                if fits {
                    assert_eq!(decode_varint(&o), Ok((v, w)));
                    // trailing bytes are not consumed
                    o.push(0xff);
                    assert_eq!(decode_varint(&o), Ok((v, w)));
                    // every strict prefix is truncated
                    for cut in 0..w {
                        assert!(decode_varint(&o[..cut]).is_err());
                    }
                }
            }
        }
        assert!(!encode_varint_width(VARINT_MAX + 1, 8, &mut vec![]));
        assert!(!encode_varint_width(1, 3, &mut vec![]));
    }
}
