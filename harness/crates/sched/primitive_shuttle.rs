// Harness-owned replacement of s2n-quic-core/src/sync/primitive.rs (property C17).
//
// `mirror.sh` copies this file to harness/gen/sync/primitive.rs, where the mirrored REAL sources
// (`spsc`, `worker`, `atomic_waker`, `cursor`) find it as `crate::sync::primitive`. It plays the
// role that the upstream file gives to loom under `cfg(loom)`, but with shuttle:
//
// * `Atomic*`   = shuttle's atomics (every access is a scheduling point, executed as SeqCst) wrapped
//                 so that an access to memory that the code under test has already deallocated is
//                 noticed (see `crate::heap`);
// * `Arc`       = shuttle's `Arc`;
// * `AtomicWaker` = same API as the `atomic-waker` crate (`new`/`register`/`wake`/`take`). Each
//                 operation is one scheduling point followed by an indivisible access to the slot,
//                 i.e. the linearizable behaviour the real crate guarantees. Every behaviour of
//                 this model is a behaviour of the real crate (a `wake` that is ordered before a
//                 `register` does not wake the new waker; the real crate may additionally wake it
//                 spuriously when the two overlap, which callers must tolerate anyway).
// * `IsZst`     = verbatim.

use core::cell::UnsafeCell;
use core::fmt;
use core::task::Waker;

pub use shuttle::sync::atomic::Ordering;
pub use shuttle::sync::Arc;

#[inline]
fn touched<T>(what: &'static str, p: &T) {
    crate::heap::touched(what, p as *const T as *const u8);
}

macro_rules! atomic_common {
    ($name:ident, $t:ty) => {
        #[repr(transparent)]
        pub struct $name(shuttle::sync::atomic::$name);

        impl $name {
            #[track_caller]
            pub const fn new(v: $t) -> Self {
                Self(shuttle::sync::atomic::$name::new(v))
            }
            #[inline]
            pub fn load(&self, order: Ordering) -> $t {
                let v = self.0.load(order);
                touched(concat!(stringify!($name), "::load"), self);
                v
            }
            #[inline]
            pub fn store(&self, v: $t, order: Ordering) {
                self.0.store(v, order);
                touched(concat!(stringify!($name), "::store"), self);
            }
            #[inline]
            pub fn swap(&self, v: $t, order: Ordering) -> $t {
                let v = self.0.swap(v, order);
                touched(concat!(stringify!($name), "::swap"), self);
                v
            }
            #[inline]
            pub fn compare_exchange(&self, current: $t, new: $t, success: Ordering, failure: Ordering) -> Result<$t, $t> {
                let v = self.0.compare_exchange(current, new, success, failure);
                touched(concat!(stringify!($name), "::compare_exchange"), self);
                v
            }
            #[inline]
            pub fn fetch_or(&self, v: $t, order: Ordering) -> $t {
                let v = self.0.fetch_or(v, order);
                touched(concat!(stringify!($name), "::fetch_or"), self);
                v
            }
            #[inline]
            pub fn fetch_and(&self, v: $t, order: Ordering) -> $t {
                let v = self.0.fetch_and(v, order);
                touched(concat!(stringify!($name), "::fetch_and"), self);
                v
            }
            #[inline]
            pub fn get_mut(&mut self) -> &mut $t {
                self.0.get_mut()
            }
            #[inline]
            pub fn into_inner(self) -> $t {
                self.0.into_inner()
            }
        }

        impl Default for $name {
            fn default() -> Self {
                Self::new(Default::default())
            }
        }

        impl From<$t> for $name {
            fn from(v: $t) -> Self {
                Self::new(v)
            }
        }

        impl fmt::Debug for $name {
            fn fmt(&self, f: &mut fmt::Formatter) -> fmt::Result {
                fmt::Debug::fmt(&self.0, f)
            }
        }
    };
}

macro_rules! atomic_int {
    ($name:ident, $t:ty) => {
        atomic_common!($name, $t);

        impl $name {
            #[inline]
            pub fn fetch_add(&self, v: $t, order: Ordering) -> $t {
                let v = self.0.fetch_add(v, order);
                touched(concat!(stringify!($name), "::fetch_add"), self);
                v
            }
            #[inline]
            pub fn fetch_sub(&self, v: $t, order: Ordering) -> $t {
                let v = self.0.fetch_sub(v, order);
                touched(concat!(stringify!($name), "::fetch_sub"), self);
                v
            }
            #[inline]
            pub fn fetch_max(&self, v: $t, order: Ordering) -> $t {
                let v = self.0.fetch_max(v, order);
                touched(concat!(stringify!($name), "::fetch_max"), self);
                v
            }
            #[inline]
            pub fn fetch_min(&self, v: $t, order: Ordering) -> $t {
                let v = self.0.fetch_min(v, order);
                touched(concat!(stringify!($name), "::fetch_min"), self);
                v
            }
        }
    };
}

atomic_common!(AtomicBool, bool);
atomic_int!(AtomicUsize, usize);
atomic_int!(AtomicU64, u64);
atomic_int!(AtomicU32, u32);
atomic_int!(AtomicU16, u16);
atomic_int!(AtomicU8, u8);

/// Same API as `atomic_waker::AtomicWaker`.
pub struct AtomicWaker {
    /// the scheduling point (and happens-before edge) of every operation
    gate: shuttle::sync::atomic::AtomicUsize,
    slot: UnsafeCell<Option<Waker>>,
}

/// Safety: shuttle runs all tasks of an execution as coroutines of one OS thread and switches
/// only at its own primitives; the slot is only touched between two such points.
unsafe impl Send for AtomicWaker {}
unsafe impl Sync for AtomicWaker {}

impl AtomicWaker {
    #[track_caller]
    pub const fn new() -> Self {
        Self {
            gate: shuttle::sync::atomic::AtomicUsize::new(0),
            slot: UnsafeCell::new(None),
        }
    }

    /// Registers the waker to be notified on calls to `wake` (replaces the previous one).
    pub fn register(&self, waker: &Waker) {
        self.gate.fetch_add(1, Ordering::SeqCst);
        touched("AtomicWaker::register", self);
        let new = waker.clone();
        let old = unsafe { (*self.slot.get()).replace(new) };
        drop(old);
    }

    /// Calls `wake` on the last `Waker` passed to `register` (if it was not taken already).
    pub fn wake(&self) {
        if let Some(waker) = self.take() {
            waker.wake();
        }
    }

    /// Returns the last `Waker` passed to `register`, so that the user can wake it.
    pub fn take(&self) -> Option<Waker> {
        self.gate.fetch_add(1, Ordering::SeqCst);
        touched("AtomicWaker::take", self);
        unsafe { (*self.slot.get()).take() }
    }
}

impl Default for AtomicWaker {
    fn default() -> Self {
        Self::new()
    }
}

impl fmt::Debug for AtomicWaker {
    fn fmt(&self, f: &mut fmt::Formatter) -> fmt::Result {
        write!(f, "AtomicWaker")
    }
}

/// Indicates if the type is a zero-sized type
///
/// This can be used to optimize the code to avoid needless calculations.
pub trait IsZst {
    const IS_ZST: bool;
}

impl<T> IsZst for T {
    const IS_ZST: bool = ::core::mem::size_of::<T>() == 0;
}
