//! C17 / cursor: the shared ring cursors (`sync::cursor::Cursor`, used by the socket rings) with a
//! producer and a consumer task that poll (no wakers at this layer).
//!
//! Oracle: the consumer reads exactly the produced sequence (each entry once, in order, never a
//! slot that was not published: entries are pre-filled with a sentinel and self-checking), and
//! neither side is ever granted more entries than the other side has released.

use crate::exec::{self, Plan};
use crate::heap::OnFreedAccess;
use crate::sync::cursor::{Builder, Cursor};
use crate::sync::primitive::AtomicU32;
use crate::vensure;
use proptest::prelude::*;
use serde::{Deserialize, Serialize};
use std::cell::{Cell, UnsafeCell};
use std::ptr::NonNull;
use std::sync::Arc;
use vcore::{CaseResult, Obs, PropCheck, SubCheck, Tier};

const KEY: u64 = 0xc0ff_ee00_dead_beef;
const EMPTY: u64 = 0xA5A5_A5A5_A5A5_A5A5;

#[derive(Clone, Debug, Hash, PartialEq, Eq, Serialize, Deserialize)]
pub struct CursorCase {
    /// ring size = 1 << size_log2
    pub size_log2: u8,
    /// producer steps: (watermark passed to acquire_producer, entries to fill and release)
    pub produce: Vec<(u8, u8)>,
    /// consumer steps, cycled until everything was consumed: (watermark, entries to release)
    pub consume: Vec<(u8, u8)>,
    pub sched_seed: u64,
    pub pct_depth: u8,
    pub schedules: u32,
}

struct Storage {
    producer: AtomicU32,
    consumer: AtomicU32,
    data: UnsafeCell<Vec<u64>>,
}

/// Safety: the ring protocol under test is what synchronises `data`
unsafe impl Send for Storage {}
unsafe impl Sync for Storage {}

struct Half {
    cursor: Cursor<u64>,
    _storage: Arc<Storage>,
}
unsafe impl Send for Half {}

fn builder(s: &Arc<Storage>, size: u32) -> Builder<u64> {
    Builder {
        producer: NonNull::from(&s.producer),
        consumer: NonNull::from(&s.consumer),
        data: NonNull::new(unsafe { (*s.data.get()).as_mut_ptr() }).unwrap(),
        size,
    }
}

#[derive(Default)]
struct Board {
    /// entries whose release by the producer has begun
    produced: Cell<u64>,
    /// entries whose release by the consumer has begun
    released: Cell<u64>,
    /// entries whose release by the producer / consumer has completed
    produced_done: Cell<u64>,
    released_done: Cell<u64>,
    producer_spun: Cell<u32>,
    consumer_spun: Cell<u32>,
}

thread_local! {
    static BOARD: Board = Board::default();
}

fn board<R>(f: impl FnOnce(&Board) -> R) -> R {
    BOARD.with(|b| f(b))
}

const F_PRODUCER_SPUN: u64 = 1;
const F_CONSUMER_SPUN: u64 = 2;
const F_WRAPPED: u64 = 4;

const CLASSES: &[(u64, &str)] = &[
    (F_PRODUCER_SPUN, "producer-found-ring-full"),
    (F_CONSUMER_SPUN, "consumer-found-ring-empty"),
    (F_WRAPPED, "ring-wrapped"),
];

fn producer(mut h: Half, prog: Arc<CursorCase>) {
    let size = 1u64 << prog.size_log2;
    let mut next = 0u64;
    for &(watermark, n) in &prog.produce {
        let mut rem = n as u32;
        while rem > 0 {
            let released_done = board(|b| b.released_done.get());
            let free = h.cursor.acquire_producer(watermark as u32);
            let released = board(|b| b.released.get());
            vensure!(
                free as u64 <= size - (next - released.min(next)),
                "over-grant",
                "producer: acquire_producer({watermark}) granted {free} free entries; ring size {size}, {next} produced, at most {released} released by the consumer"
            );
            if free == 0 {
                // the ring looked full: legitimate only if the consumer had not yet released
                // everything when we asked (a watermark of 0 never forces a refresh)
                vensure!(
                    watermark == 0 || next - released_done >= size || free > 0,
                    "missed-release",
                    "producer: acquire_producer({watermark}) reports a full ring although the consumer had completely released {released_done} of {next} entries (size {size})"
                );
                board(|b| b.producer_spun.set(b.producer_spun.get() + 1));
                shuttle::thread::yield_now();
                // make progress even with watermark 0 (cached value is never refreshed otherwise)
                let free = h.cursor.acquire_producer(u32::MAX);
                if free == 0 {
                    continue;
                }
            }
            let k = {
                let (a, b) = unsafe { h.cursor.producer_data() };
                let avail = a.len() + b.len();
                let k = (rem as usize).min(avail);
                for (i, slot) in a.iter_mut().chain(b.iter_mut()).take(k).enumerate() {
                    *slot = (next + i as u64) ^ KEY;
                }
                k as u32
            };
            if k == 0 {
                continue;
            }
            next += k as u64;
            board(|b| b.produced.set(next));
            h.cursor.release_producer(k);
            board(|b| b.produced_done.set(next));
            rem -= k;
        }
    }
}

fn consumer(mut h: Half, prog: Arc<CursorCase>, total: u64) {
    let mut expected = 0u64;
    let mut step = 0usize;
    while expected < total {
        let (watermark, n) = if prog.consume.is_empty() { (1, 1) } else { prog.consume[step % prog.consume.len()] };
        step += 1;
        let produced_done = board(|b| b.produced_done.get());
        let mut filled = h.cursor.acquire_consumer(watermark as u32);
        let produced = board(|b| b.produced.get());
        vensure!(
            filled as u64 <= produced - expected,
            "over-grant",
            "consumer: acquire_consumer({watermark}) granted {filled} entries; {produced} produced at most, {expected} consumed"
        );
        if filled == 0 {
            vensure!(
                watermark == 0 || produced_done == expected,
                "missed-release",
                "consumer: acquire_consumer({watermark}) reports an empty ring although the producer had completely released {produced_done} entries and only {expected} were consumed"
            );
            board(|b| b.consumer_spun.set(b.consumer_spun.get() + 1));
            shuttle::thread::yield_now();
            filled = h.cursor.acquire_consumer(u32::MAX);
            if filled == 0 {
                continue;
            }
        }
        {
            let (a, b) = unsafe { h.cursor.consumer_data() };
            vensure!(a.len() + b.len() == filled as usize, "data-len", "consumer: consumer_data() exposes {} entries, acquire granted {filled}", a.len() + b.len());
            for (i, v) in a.iter().chain(b.iter()).enumerate() {
                let want = expected + i as u64;
                vensure!(*v != EMPTY, "poison", "consumer: entry for item {want} was never written (sentinel)");
                vensure!(*v == want ^ KEY, "order", "consumer: entry holds item {:#x} where the FIFO order requires item {want}", *v ^ KEY);
            }
        }
        let k = (n.max(1) as u32).min(filled);
        // hand the slots back poisoned so that a reuse before rewrite is visible
        {
            let (a, b) = unsafe { h.cursor.consumer_data() };
            for slot in a.iter_mut().chain(b.iter_mut()).take(k as usize) {
                *slot = EMPTY;
            }
        }
        expected += k as u64;
        board(|b| b.released.set(expected));
        h.cursor.release_consumer(k);
        board(|b| b.released_done.set(expected));
    }
}

fn run(prog: &Arc<CursorCase>) {
    board(|b| {
        b.produced.set(0);
        b.released.set(0);
        b.produced_done.set(0);
        b.released_done.set(0);
        b.producer_spun.set(0);
        b.consumer_spun.set(0);
    });
    let size = 1u32 << prog.size_log2;
    let storage = Arc::new(Storage {
        producer: AtomicU32::new(0),
        consumer: AtomicU32::new(0),
        data: UnsafeCell::new(vec![EMPTY; size as usize]),
    });
    let p = Half { cursor: unsafe { builder(&storage, size).build_producer() }, _storage: storage.clone() };
    let c = Half { cursor: unsafe { builder(&storage, size).build_consumer() }, _storage: storage.clone() };
    let total: u64 = prog.produce.iter().map(|(_, n)| *n as u64).sum();
    let (p1, p2) = (prog.clone(), prog.clone());
    let t1 = shuttle::thread::spawn(move || producer(p, p1));
    let t2 = shuttle::thread::spawn(move || consumer(c, p2, total));
    t1.join().expect("producer task");
    t2.join().expect("consumer task");
    let (flags, cond) = board(|b| {
        let mut f = 0;
        if b.producer_spun.get() > 0 {
            f |= F_PRODUCER_SPUN;
        }
        if b.consumer_spun.get() > 0 {
            f |= F_CONSUMER_SPUN;
        }
        if total > size as u64 {
            f |= F_WRAPPED;
        }
        (f, total > size as u64 && (b.producer_spun.get() > 0 || b.consumer_spun.get() > 0))
    });
    exec::commit(cond, flags, 0);
}

pub fn oracle(case: &CursorCase, obs: &mut Obs) -> CaseResult {
    let prog = Arc::new(case.clone());
    let plan = Plan { seed: case.sched_seed, random: case.schedules, pct: case.schedules, depth: case.pct_depth };
    let out = exec::explore(plan, "cursor", OnFreedAccess::Fail, move || run(&prog));
    let agg = exec::finish(out, obs, CLASSES)?;
    obs.sample = Some(serde_json::json!({
        "case": case,
        "schedules": agg.execs,
        "schedules_with_preemption": agg.preempted,
        "schedules_nontrivial": agg.nontrivial,
    }));
    Ok(())
}

fn case_strategy(t: Tier) -> impl Strategy<Value = CursorCase> {
    let schedules = t.pick(500, 4000);
    (
        1u8..=3,
        prop::collection::vec((prop_oneof![Just(0u8), Just(1), 1u8..=9], 1u8..=6), 1..6),
        prop::collection::vec((prop_oneof![Just(0u8), Just(1), 1u8..=9], 1u8..=6), 0..5),
        any::<u64>(),
        1u8..=4,
    )
        .prop_map(move |(size_log2, produce, consume, sched_seed, pct_depth)| CursorCase {
            size_log2,
            produce,
            consume,
            sched_seed,
            pct_depth,
            schedules,
        })
}

pub fn subs() -> Vec<Box<dyn SubCheck>> {
    vec![Box::new(PropCheck::<CursorCase, _> {
        name: "cursor_programs",
        cases: |t| t.pick(160, 1200),
        strategy: case_strategy,
        oracle,
        max_shrink_iters: 96,
    })]
}
