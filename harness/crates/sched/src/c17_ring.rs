//! C17 / weakest tier: `s2n_quic_platform::socket::ring` (public API, built on the *real* std
//! atomics, `sync::cursor` and `atomic_waker::pair`) with generated producer / consumer programs
//! on REAL OS threads. Interleavings are whatever the machine produces (x86-TSO here), nudged by
//! `yield_now` at generated points; nothing is replayable, so this only adds confidence and can
//! never be the deciding evidence for C17.
//!
//! Oracle: the consumer obtains exactly the produced sequence (self-checking payloads), a side
//! parked in `poll_acquire` is woken when entries / space appear or the peer goes away. A hang
//! (lost wake-up) cannot be told from a slow machine: a generous watchdog turns it into a harness
//! failure (exit 2), never into a violation.

use proptest::prelude::*;
use s2n_quic_platform::message::{simple::Message as Msg, Message as _};
use s2n_quic_platform::socket::ring;
use serde::{Deserialize, Serialize};
use std::collections::HashMap;
use std::sync::atomic::{AtomicBool, AtomicU64, Ordering};
use std::sync::{Arc, Mutex};
use std::task::{Context, Poll, Wake, Waker};
use std::time::{Duration, Instant};
use vcore::{CaseResult, Fail, Obs, PropCheck, SubCheck, Tier};

const KEY: u64 = 0x7261_6e67_5f63_3137;
const PAYLOAD: usize = 16;
/// a park longer than this without any wake-up is reported as a hang (exit 2)
const HANG: Duration = Duration::from_secs(240);

#[derive(Clone, Copy, Debug, Hash, PartialEq, Eq, Serialize, Deserialize)]
pub struct Step {
    /// entries to fill / consume in this step (capped by what was acquired)
    pub n: u8,
    /// watermark passed to `poll_acquire`
    pub watermark: u8,
    /// `yield_now()` calls before acquiring, between touching the entries and releasing, after
    pub yield_before: u8,
    pub yield_mid: u8,
    pub yield_after: u8,
}

#[derive(Clone, Debug, Hash, PartialEq, Eq, Serialize, Deserialize)]
pub struct RingCase {
    /// ring entries = 1 << entries_log2
    pub entries_log2: u8,
    /// cycled until `total` entries went through
    pub produce: Vec<Step>,
    pub consume: Vec<Step>,
    pub total: u32,
    /// the consumer leaves after this many entries (the producer must notice and stop)
    pub consumer_leaves_after: Option<u32>,
}

struct Parker {
    thread: std::thread::Thread,
    woken: AtomicBool,
}

impl Wake for Parker {
    fn wake(self: Arc<Self>) {
        self.wake_by_ref()
    }
    fn wake_by_ref(self: &Arc<Self>) {
        self.woken.store(true, Ordering::Release);
        self.thread.unpark();
    }
}

/// polls `f` on the current OS thread, parking between polls; counts the parks
fn block_on<T>(parks: &AtomicU64, what: &str, mut f: impl FnMut(&mut Context) -> Poll<T>) -> T {
    let parker = Arc::new(Parker { thread: std::thread::current(), woken: AtomicBool::new(false) });
    let waker = Waker::from(parker.clone());
    let mut cx = Context::from_waker(&waker);
    loop {
        if let Poll::Ready(v) = f(&mut cx) {
            return v;
        }
        parks.fetch_add(1, Ordering::Relaxed);
        let t0 = Instant::now();
        while !parker.woken.swap(false, Ordering::Acquire) {
            std::thread::park_timeout(Duration::from_millis(500));
            if t0.elapsed() > HANG {
                eprintln!("harness error: C17 ring_threads: {what} was parked for {HANG:?} without a wake-up (lost wake-up or a stalled machine); not a verdict");
                std::process::exit(2);
            }
        }
    }
}

fn yields(n: u8) {
    for _ in 0..n {
        std::thread::yield_now();
    }
}

type Verdict = Result<(), (&'static str, String)>;

fn producer(mut p: ring::Producer<Msg>, case: &RingCase, parks: &AtomicU64) -> Verdict {
    let steps = if case.produce.is_empty() { vec![Step { n: 1, watermark: 1, yield_before: 0, yield_mid: 0, yield_after: 0 }] } else { case.produce.clone() };
    let mut next = 0u64;
    let total = case.total as u64;
    let mut i = 0usize;
    while next < total {
        let s = steps[i % steps.len()];
        i += 1;
        yields(s.yield_before);
        let got = block_on(parks, "the producer", |cx| match p.poll_acquire(s.watermark.max(1) as u32, cx) {
            Poll::Ready(c) => Poll::Ready(Some(c)),
            Poll::Pending => {
                if p.is_open() {
                    Poll::Pending
                } else {
                    Poll::Ready(None)
                }
            }
        });
        let Some(count) = got else {
            // the consumer went away
            if case.consumer_leaves_after.is_none() {
                return Err(("ring:spurious-closed", format!("producer: is_open() is false after {next} entries but the consumer never leaves early")));
            }
            return Ok(());
        };
        if count == 0 {
            return Err(("ring:acquire-zero", "producer: poll_acquire() resolved with 0 entries".into()));
        }
        let k = (s.n.max(1) as u64).min(count as u64).min(total - next) as usize;
        {
            let data = p.data();
            if data.len() < count as usize {
                return Err(("ring:data-len", format!("producer: data() exposes {} entries, {count} acquired", data.len())));
            }
            for (j, m) in data[..k].iter_mut().enumerate() {
                let v = next + j as u64;
                unsafe { m.set_payload_len(PAYLOAD) };
                let b = m.payload_mut();
                b[..8].copy_from_slice(&v.to_le_bytes());
                b[8..16].copy_from_slice(&(v ^ KEY).to_le_bytes());
            }
        }
        yields(s.yield_mid);
        p.release(k as u32);
        next += k as u64;
        yields(s.yield_after);
    }
    Ok(())
}

fn consumer(mut c: ring::Consumer<Msg>, case: &RingCase, parks: &AtomicU64) -> Verdict {
    let steps = if case.consume.is_empty() { vec![Step { n: 1, watermark: 1, yield_before: 0, yield_mid: 0, yield_after: 0 }] } else { case.consume.clone() };
    let mut expected = 0u64;
    let total = case.consumer_leaves_after.map(|n| n.min(case.total)).unwrap_or(case.total) as u64;
    let mut i = 0usize;
    while expected < total {
        let s = steps[i % steps.len()];
        i += 1;
        yields(s.yield_before);
        let got = block_on(parks, "the consumer", |cx| match c.poll_acquire(s.watermark.max(1) as u32, cx) {
            Poll::Ready(n) => Poll::Ready(Some(n)),
            Poll::Pending => {
                if c.is_open() {
                    Poll::Pending
                } else {
                    // the producer is gone: everything it released must still be obtainable
                    match c.acquire(1) {
                        0 => Poll::Ready(None),
                        n => Poll::Ready(Some(n)),
                    }
                }
            }
        });
        let Some(count) = got else {
            return Err(("ring:lost-item", format!("consumer: producer gone and ring empty after {expected} of {} entries", case.total)));
        };
        if count == 0 {
            return Err(("ring:acquire-zero", "consumer: poll_acquire() resolved with 0 entries".into()));
        }
        let k = (s.n.max(1) as u64).min(count as u64).min(total - expected) as usize;
        {
            let data = c.data();
            if data.len() < count as usize {
                return Err(("ring:data-len", format!("consumer: data() exposes {} entries, {count} acquired", data.len())));
            }
            for (j, m) in data[..count as usize].iter_mut().enumerate() {
                let want = expected + j as u64;
                if m.payload_len() != PAYLOAD {
                    return Err(("ring:poison", format!("consumer: entry for item {want} has payload_len {} (never written?)", m.payload_len())));
                }
                let b = m.payload_mut();
                let v = u64::from_le_bytes(b[..8].try_into().unwrap());
                let chk = u64::from_le_bytes(b[8..16].try_into().unwrap());
                if chk != v ^ KEY {
                    return Err(("ring:poison", format!("consumer: entry for item {want} is not a completely written item ({v:#x}/{chk:#x})")));
                }
                if v != want {
                    return Err(("ring:order", format!("consumer: entry holds item {v} where the FIFO order requires item {want}")));
                }
            }
            // poison what is handed back
            for m in data[..k].iter_mut() {
                m.payload_mut()[8..16].copy_from_slice(&0u64.to_le_bytes());
            }
        }
        yields(s.yield_mid);
        c.release(k as u32);
        expected += k as u64;
        yields(s.yield_after);
    }
    Ok(())
}

fn sticky() -> &'static Mutex<HashMap<u64, Fail>> {
    static S: std::sync::OnceLock<Mutex<HashMap<u64, Fail>>> = std::sync::OnceLock::new();
    S.get_or_init(|| Mutex::new(HashMap::new()))
}

pub fn oracle(case: &RingCase, obs: &mut Obs) -> CaseResult {
    // Real threads are not replayable: a violation seen once for a case stays attached to that
    // case for the life of the process, so that the engine's re-execution classifies it the same.
    let h = vcore::hash_of(case);
    if let Some(f) = sticky().lock().unwrap().get(&h) {
        return Err(f.clone());
    }
    let entries = 1u32 << case.entries_log2;
    let (p, c) = ring::pair::<Msg>(entries, PAYLOAD as u32);
    let pparks = Arc::new(AtomicU64::new(0));
    let cparks = Arc::new(AtomicU64::new(0));
    let (case_p, case_c) = (case.clone(), case.clone());
    let (pp, cp) = (pparks.clone(), cparks.clone());
    let tp = std::thread::Builder::new().name("c17-ring-producer".into()).spawn(move || producer(p, &case_p, &pp)).expect("spawn");
    let tc = std::thread::Builder::new().name("c17-ring-consumer".into()).spawn(move || consumer(c, &case_c, &cp)).expect("spawn");
    let rp = tp.join();
    let rc = tc.join();
    let verdict = match (rp, rc) {
        (Ok(a), Ok(b)) => b.and(a),
        _ => panic!("C17 harness error: a ring_threads worker thread panicked"),
    };
    if let Err((key, msg)) = verdict {
        let f = Fail::new(key, format!("{msg} [real threads: not replayable]"));
        sticky().lock().unwrap().insert(h, f.clone());
        return Err(f);
    }
    let (pk, ck) = (pparks.load(Ordering::Relaxed), cparks.load(Ordering::Relaxed));
    obs.units = case.total as u64;
    obs.class_if(pk > 0, "producer-parked");
    obs.class_if(ck > 0, "consumer-parked");
    obs.class_if(case.consumer_leaves_after.is_some(), "consumer-leaves-early");
    obs.class_if(case.total > entries, "ring-wrapped");
    obs.nontrivial(case.total > entries && pk > 0 && ck > 0);
    obs.sample = Some(serde_json::json!({ "case": case, "producer_parks": pk, "consumer_parks": ck }));
    Ok(())
}

fn step() -> impl Strategy<Value = Step> {
    (1u8..=8, prop_oneof![Just(1u8), 1u8..=8], 0u8..=2, 0u8..=2, 0u8..=2).prop_map(|(n, watermark, yield_before, yield_mid, yield_after)| Step {
        n,
        watermark,
        yield_before,
        yield_mid,
        yield_after,
    })
}

fn case_strategy(t: Tier) -> impl Strategy<Value = RingCase> {
    let total = t.pick(20_000u32, 100_000);
    (
        1u8..=4,
        prop::collection::vec(step(), 1..5),
        prop::collection::vec(step(), 1..5),
        prop::option::weighted(0.2, 1u32..total),
    )
        .prop_map(move |(entries_log2, produce, consume, consumer_leaves_after)| RingCase {
            entries_log2,
            produce,
            consume,
            total,
            consumer_leaves_after,
        })
}

pub fn subs() -> Vec<Box<dyn SubCheck>> {
    vec![Box::new(PropCheck::<RingCase, _> {
        name: "ring_threads",
        cases: |t| t.pick(64, 256),
        strategy: case_strategy,
        oracle,
        max_shrink_iters: 0,
    })]
}
