//! C17 / spsc: generated producer + consumer scripts over the real `sync::spsc` queue, explored
//! under random and PCT schedules, checked against a reference FIFO.

use crate::exec::{self, Plan};
use crate::heap::{self, OnFreedAccess};
use crate::item::{self, Item};
use crate::sync::primitive::AtomicWaker;
use crate::sync::spsc::{self, ClosedError, PushError, Receiver, RecvSlice, SendSlice, Sender};
use crate::{vensure, vfail};
use proptest::prelude::*;
use serde::{Deserialize, Serialize};
use std::cell::{Cell, RefCell};
use std::task::Poll;
use std::future::Future;
use std::sync::Arc;
use vcore::{CaseResult, Obs, PropCheck, SubCheck, Tier};

#[derive(Clone, Copy, Debug, Hash, PartialEq, Eq, Serialize, Deserialize)]
pub enum TxOp {
    /// `acquire().await`, then push up to n items through `slice()`
    AcquirePush(u8),
    /// `try_slice()`, push up to n items if a slice was handed out
    TryPush(u8),
    /// `slice()` on the cached cursor (optionally `sync()` first), push up to n items
    SlicePush { n: u8, sync: bool },
    /// push exactly n items, awaiting `acquire()` whenever the queue is full
    PushAll(u8),
    /// `acquire().await` without pushing
    Acquire,
    /// park (harness-side waker) until the consumer has consumed everything pushed so far or is
    /// gone: the consumer's wake-up for these items must come from the push itself, not from a
    /// later close
    AwaitConsumed,
    /// cooperative yield (a scheduling hint)
    Yield,
}

#[derive(Clone, Copy, Debug, Hash, PartialEq, Eq, Serialize, Deserialize)]
pub enum RxOp {
    /// `acquire().await`, then pop up to n items through `slice()`
    AcquirePop(u8),
    /// `try_slice()`, pop up to n items if a slice was handed out
    TryPop(u8),
    /// `slice()` on the cached cursor, pop up to n items
    SlicePop(u8),
    /// `acquire().await`, `peek()` (contents are verified), `release(min(n, len))`
    PeekRelease(u8),
    /// `try_slice()`, `peek()` (verified), `clear()`
    Clear,
    /// pop until n items were obtained or the queue is closed, awaiting `acquire()` when empty
    PopAll(u8),
    /// `acquire().await` without popping
    Acquire,
    Yield,
}

#[derive(Clone, Debug, Hash, PartialEq, Eq, Serialize, Deserialize)]
pub struct SpscCase {
    /// requested capacity (the queue rounds cap+1 up to a power of two)
    pub cap: u8,
    /// producer script; the sender is dropped when it ends (or when it observes `Closed`)
    pub tx: Vec<TxOp>,
    /// consumer script; afterwards the receiver either drains until `Closed` or is dropped at once
    pub rx: Vec<RxOp>,
    pub drain: bool,
    pub sched_seed: u64,
    pub pct_depth: u8,
    /// schedules per scheduler kind (random, PCT)
    pub schedules: u32,
}

const F_TX_BLOCKED: u64 = 1;
const F_RX_BLOCKED: u64 = 2;
const F_CLOSE_PENDING: u64 = 4;
const F_WRAPPED: u64 = 8;
const F_TX_SAW_CLOSED: u64 = 16;
const F_RX_SAW_CLOSED: u64 = 32;
const F_FREED_ACCESS: u64 = 64;
const F_MULTI_BATCH: u64 = 128;
const F_LEFTOVER_FREED_BY_CLOSE: u64 = 256;
const F_TX_AWAITED_CONSUMER: u64 = 512;

const CLASSES: &[(u64, &str)] = &[
    (F_TX_BLOCKED, "producer-acquire-was-pending"),
    (F_RX_BLOCKED, "consumer-acquire-was-pending"),
    (F_CLOSE_PENDING, "close-resolved-a-pending-acquire"),
    (F_WRAPPED, "ring-wrapped"),
    (F_TX_SAW_CLOSED, "producer-saw-closed"),
    (F_RX_SAW_CLOSED, "consumer-saw-closed-after-drain"),
    (F_FREED_ACCESS, "teardown-touched-freed-state"),
    (F_MULTI_BATCH, "two-or-more-batches"),
    (F_LEFTOVER_FREED_BY_CLOSE, "undelivered-items-dropped-by-close"),
    (F_TX_AWAITED_CONSUMER, "producer-parked-until-items-were-consumed"),
];

/// per-execution blackboard shared by the tasks (all tasks of a shuttle execution run on one
/// OS thread; none of these accesses is a scheduling point)
#[derive(Default)]
struct Board {
    pushed: Cell<u64>,
    consumed: Cell<u64>,
    batches: Cell<u32>,
    tx_drop_started: Cell<bool>,
    tx_dropped: Cell<bool>,
    rx_drop_started: Cell<bool>,
    rx_dropped: Cell<bool>,
    tx_saw_closed: Cell<bool>,
    rx_saw_closed: Cell<bool>,
    tx_pending: Cell<u32>,
    rx_pending: Cell<u32>,
    close_resolved_pending: Cell<u32>,
    ack_parked: Cell<u32>,
    /// harness-side waker: the consumer announces progress to a producer in `AwaitConsumed`
    ack: RefCell<Option<Arc<AtomicWaker>>>,
}

thread_local! {
    static BOARD: Board = Board::default();
}

/// the consumer made progress (or left)
fn announce() {
    let w = board(|b| b.ack.borrow().clone());
    if let Some(w) = w {
        w.wake();
    }
}

fn set_consumed(n: u64) {
    board(|b| b.consumed.set(n));
    announce();
}

fn board<R>(f: impl FnOnce(&Board) -> R) -> R {
    BOARD.with(|b| f(b))
}

fn board_reset() {
    board(|b| {
        b.pushed.set(0);
        b.consumed.set(0);
        b.batches.set(0);
        b.tx_drop_started.set(false);
        b.tx_dropped.set(false);
        b.rx_drop_started.set(false);
        b.rx_dropped.set(false);
        b.tx_saw_closed.set(false);
        b.rx_saw_closed.set(false);
        b.tx_pending.set(0);
        b.rx_pending.set(0);
        b.close_resolved_pending.set(0);
        b.ack_parked.set(0);
        *b.ack.borrow_mut() = Some(Arc::new(AtomicWaker::new()));
    })
}

/// awaits `fut`, counting how often it returned `Pending`
async fn counted<F: Future>(fut: F) -> (F::Output, u32) {
    let mut fut = std::pin::pin!(fut);
    let mut pend = 0u32;
    let r = std::future::poll_fn(|cx| {
        let r = fut.as_mut().poll(cx);
        if r.is_pending() {
            pend += 1;
        }
        r
    })
    .await;
    (r, pend)
}

async fn tx_acquire(tx: &mut Sender<Item>) -> Result<(), ClosedError> {
    let rx_gone = board(|b| b.rx_dropped.get());
    let (r, pend) = counted(tx.acquire()).await;
    board(|b| {
        if pend > 0 {
            b.tx_pending.set(b.tx_pending.get() + 1);
            if r.is_err() {
                b.close_resolved_pending.set(b.close_resolved_pending.get() + 1);
            }
        }
    });
    match r {
        Ok(()) => vensure!(
            !rx_gone,
            "closed-not-observed",
            "producer: acquire() returned Ok although the receiver had been dropped completely before the call"
        ),
        Err(_) => vensure!(
            board(|b| b.rx_drop_started.get()),
            "spurious-closed",
            "producer: acquire() returned Closed while the receiver was alive"
        ),
    }
    r
}

async fn rx_acquire(rx: &mut Receiver<Item>) -> Result<(), ClosedError> {
    let (r, pend) = counted(rx.acquire()).await;
    board(|b| {
        if pend > 0 {
            b.rx_pending.set(b.rx_pending.get() + 1);
            if r.is_err() {
                b.close_resolved_pending.set(b.close_resolved_pending.get() + 1);
            }
        }
    });
    if r.is_err() {
        rx_closed();
    }
    r
}

/// the consumer was told `Closed`
fn rx_closed() {
    board(|b| {
        vensure!(
            b.tx_drop_started.get(),
            "spurious-closed",
            "consumer: Closed was signalled while the sender was alive"
        );
        vensure!(
            b.consumed.get() == b.pushed.get(),
            "lost-item",
            "consumer: Closed was signalled after {} items although the producer pushed {} before it dropped",
            b.consumed.get(),
            b.pushed.get()
        );
        b.rx_saw_closed.set(true);
    })
}

/// pushes up to n items; returns (pushed, closed)
fn push_n(s: &mut SendSlice<'_, Item>, n: u8, next: &mut u64) -> (u8, bool) {
    let mut k = 0;
    for _ in 0..n {
        match s.push(Item::new(*next)) {
            Ok(()) => {
                *next += 1;
                k += 1;
                board(|b| b.pushed.set(*next));
            }
            Err(PushError::Full(v)) => {
                vensure!(v.is_valid() && v.idx == *next, "push-returned-other-value", "push() handed back a different value than the rejected one");
                v.disarm();
                break;
            }
            Err(PushError::Closed) => {
                // the rejected value was dropped inside push(): it never entered the queue
                item::with_ledger(|l| {
                    let i = *next as usize;
                    if l.drops.len() > i && l.drops[i] > 0 {
                        l.drops[i] -= 1;
                    }
                });
                vensure!(
                    board(|b| b.rx_drop_started.get()),
                    "spurious-closed",
                    "producer: push() returned Closed while the receiver was alive"
                );
                if k > 0 {
                    board(|b| b.batches.set(b.batches.get() + 1));
                }
                return (k, true);
            }
        }
    }
    if k > 0 {
        board(|b| b.batches.set(b.batches.get() + 1));
    }
    (k, false)
}

fn tx_note_closed() {
    board(|b| b.tx_saw_closed.set(true));
}

async fn producer(mut tx: Sender<Item>, prog: Arc<SpscCase>) {
    let mut next = 0u64;
    'script: for (step, op) in prog.tx.iter().enumerate() {
        match *op {
            TxOp::AcquirePush(n) => match tx_acquire(&mut tx).await {
                Ok(()) => {
                    let mut s = tx.slice();
                    let (k, closed) = push_n(&mut s, n, &mut next);
                    vensure!(k > 0 || closed, "acquire-without-capacity", "producer step {step}: acquire() resolved Ok but push() reports Full");
                    drop(s);
                    if closed {
                        tx_note_closed();
                        break 'script;
                    }
                }
                Err(_) => {
                    tx_note_closed();
                    break 'script;
                }
            },
            TxOp::TryPush(n) => {
                let rx_gone = board(|b| b.rx_dropped.get());
                match tx.try_slice() {
                    Ok(Some(mut s)) => {
                        vensure!(!rx_gone, "closed-not-observed", "producer step {step}: try_slice() returned a slice although the receiver had been dropped completely");
                        let (k, closed) = push_n(&mut s, n, &mut next);
                        vensure!(k > 0 || closed, "acquire-without-capacity", "producer step {step}: try_slice() returned a slice but push() reports Full");
                        drop(s);
                        if closed {
                            tx_note_closed();
                            break 'script;
                        }
                    }
                    Ok(None) => {
                        vensure!(!rx_gone, "closed-not-observed", "producer step {step}: try_slice() returned None (full) although the receiver had been dropped completely");
                    }
                    Err(_) => {
                        vensure!(board(|b| b.rx_drop_started.get()), "spurious-closed", "producer step {step}: try_slice() returned Closed while the receiver was alive");
                        tx_note_closed();
                        break 'script;
                    }
                }
            }
            TxOp::SlicePush { n, sync } => {
                let mut s = tx.slice();
                if sync && s.sync().is_err() {
                    vensure!(board(|b| b.rx_drop_started.get()), "spurious-closed", "producer step {step}: sync() returned Closed while the receiver was alive");
                    drop(s);
                    tx_note_closed();
                    break 'script;
                }
                let (_, closed) = push_n(&mut s, n, &mut next);
                drop(s);
                if closed {
                    tx_note_closed();
                    break 'script;
                }
            }
            TxOp::PushAll(n) => {
                let mut rem = n;
                while rem > 0 {
                    match tx_acquire(&mut tx).await {
                        Ok(()) => {
                            let mut s = tx.slice();
                            let (k, closed) = push_n(&mut s, rem, &mut next);
                            vensure!(k > 0 || closed, "acquire-without-capacity", "producer step {step}: acquire() resolved Ok but push() reports Full");
                            drop(s);
                            rem -= k;
                            if closed {
                                tx_note_closed();
                                break 'script;
                            }
                        }
                        Err(_) => {
                            tx_note_closed();
                            break 'script;
                        }
                    }
                }
            }
            TxOp::Acquire => {
                if tx_acquire(&mut tx).await.is_err() {
                    tx_note_closed();
                    break 'script;
                }
            }
            TxOp::AwaitConsumed => {
                let target = next;
                let w = board(|b| b.ack.borrow().clone()).expect("ack waker");
                let mut pend = 0u32;
                std::future::poll_fn(|cx| {
                    for round in 0..2 {
                        if board(|b| b.consumed.get() >= target || b.rx_dropped.get()) {
                            return Poll::Ready(());
                        }
                        if round == 0 {
                            w.register(cx.waker());
                        }
                    }
                    pend += 1;
                    Poll::Pending
                })
                .await;
                if pend > 0 {
                    board(|b| b.ack_parked.set(b.ack_parked.get() + 1));
                }
            }
            TxOp::Yield => shuttle::future::yield_now().await,
        }
    }
    board(|b| b.tx_drop_started.set(true));
    drop(tx);
    board(|b| b.tx_dropped.set(true));
}

/// checks one value obtained by the consumer against the reference FIFO
fn check_item(what: &str, idx: u64, check: u64, expected: u64) {
    vensure!(
        check == idx ^ item::POISON_KEY,
        "poison",
        "consumer: {what} exposed a slot that was never (completely) written: idx={idx:#x} check={check:#x} (expected item {expected})"
    );
    vensure!(
        idx == expected,
        "order",
        "consumer: {what} yielded item {idx} where the FIFO order requires item {expected}"
    );
    let pushed = board(|b| b.pushed.get());
    vensure!(idx < pushed, "phantom-item", "consumer: {what} yielded item {idx} but only {pushed} items were pushed");
}

/// pops up to n items; returns how many
fn pop_n(s: &mut RecvSlice<'_, Item>, n: u8, expected: &mut u64) -> u8 {
    let mut k = 0;
    for _ in 0..n {
        match s.pop() {
            Some(v) => {
                check_item("pop()", v.idx, v.check, *expected);
                *expected += 1;
                k += 1;
                set_consumed(*expected);
                drop(v);
            }
            None => break,
        }
    }
    k
}

/// verifies what `peek()` exposes; returns its length
fn check_peek(s: &mut RecvSlice<'_, Item>, expected: u64) -> usize {
    let (a, b) = s.peek();
    let mut e = expected;
    for v in a.iter().chain(b.iter()) {
        check_item("peek()", v.idx, v.check, e);
        e += 1;
    }
    a.len() + b.len()
}

async fn consumer(mut rx: Receiver<Item>, prog: Arc<SpscCase>) {
    let mut expected = 0u64;
    let mut closed = false;
    'script: for (step, op) in prog.rx.iter().enumerate() {
        match *op {
            RxOp::AcquirePop(n) => match rx_acquire(&mut rx).await {
                Ok(()) => {
                    let mut s = rx.slice();
                    let k = pop_n(&mut s, n, &mut expected);
                    vensure!(k > 0, "acquire-without-item", "consumer step {step}: acquire() resolved Ok but pop() returned None");
                }
                Err(_) => {
                    closed = true;
                    break 'script;
                }
            },
            RxOp::TryPop(n) => {
                let tx_gone = board(|b| b.tx_dropped.get());
                match rx.try_slice() {
                    Ok(Some(mut s)) => {
                        let k = pop_n(&mut s, n, &mut expected);
                        vensure!(k > 0, "acquire-without-item", "consumer step {step}: try_slice() returned a slice but pop() returned None");
                    }
                    Ok(None) => {
                        vensure!(!tx_gone, "closed-not-observed", "consumer step {step}: try_slice() returned None (open, empty) although the sender had been dropped completely");
                    }
                    Err(_) => {
                        rx_closed();
                        closed = true;
                        break 'script;
                    }
                }
            }
            RxOp::SlicePop(n) => {
                let mut s = rx.slice();
                pop_n(&mut s, n, &mut expected);
            }
            RxOp::PeekRelease(n) => match rx_acquire(&mut rx).await {
                Ok(()) => {
                    let mut s = rx.slice();
                    let len = check_peek(&mut s, expected);
                    vensure!(len > 0, "acquire-without-item", "consumer step {step}: acquire() resolved Ok but peek() is empty");
                    let k = (n as usize).min(len);
                    s.release(k);
                    expected += k as u64;
                    set_consumed(expected);
                }
                Err(_) => {
                    closed = true;
                    break 'script;
                }
            },
            RxOp::Clear => {
                let tx_gone = board(|b| b.tx_dropped.get());
                match rx.try_slice() {
                    Ok(Some(mut s)) => {
                        let len = check_peek(&mut s, expected);
                        let c = s.clear();
                        vensure!(c == len, "clear-count", "consumer step {step}: clear() reports {c} items, peek() exposed {len}");
                        expected += c as u64;
                        set_consumed(expected);
                    }
                    Ok(None) => {
                        vensure!(!tx_gone, "closed-not-observed", "consumer step {step}: try_slice() returned None (open, empty) although the sender had been dropped completely");
                    }
                    Err(_) => {
                        rx_closed();
                        closed = true;
                        break 'script;
                    }
                }
            }
            RxOp::PopAll(n) => {
                let mut rem = n;
                while rem > 0 {
                    match rx_acquire(&mut rx).await {
                        Ok(()) => {
                            let mut s = rx.slice();
                            let k = pop_n(&mut s, rem, &mut expected);
                            vensure!(k > 0, "acquire-without-item", "consumer step {step}: acquire() resolved Ok but pop() returned None");
                            rem -= k;
                        }
                        Err(_) => {
                            closed = true;
                            break 'script;
                        }
                    }
                }
            }
            RxOp::Acquire => {
                if rx_acquire(&mut rx).await.is_err() {
                    closed = true;
                    break 'script;
                }
            }
            RxOp::Yield => shuttle::future::yield_now().await,
        }
    }
    if prog.drain && !closed {
        // obtain ALL remaining items, then the closed signal
        loop {
            match rx_acquire(&mut rx).await {
                Ok(()) => {
                    let mut s = rx.slice();
                    let k = pop_n(&mut s, u8::MAX, &mut expected);
                    vensure!(k > 0, "acquire-without-item", "consumer drain: acquire() resolved Ok but pop() returned None");
                }
                Err(_) => break,
            }
        }
    }
    board(|b| b.rx_drop_started.set(true));
    drop(rx);
    board(|b| b.rx_dropped.set(true));
    announce();
}

/// the main task of one execution
fn run(prog: &Arc<SpscCase>) {
    board_reset();
    item::ledger_reset();
    let (tx, rx) = spsc::channel::<Item>(prog.cap as usize);
    let ring = tx.capacity() as u64 + 1;
    vensure!(
        tx.capacity() >= prog.cap as usize && rx.capacity() == tx.capacity(),
        "capacity",
        "channel({}) reports capacity {} / {}",
        prog.cap,
        tx.capacity(),
        rx.capacity()
    );
    let p = prog.clone();
    let c = prog.clone();
    let ht = shuttle::thread::spawn(move || shuttle::future::block_on(producer(tx, p)));
    let hr = shuttle::thread::spawn(move || shuttle::future::block_on(consumer(rx, c)));
    ht.join().expect("producer task");
    hr.join().expect("consumer task");

    // both handles are gone: every pushed item must have been dropped exactly once, by the
    // consumer (pop / release / clear) or by the side that closed last
    let (pushed, consumed) = board(|b| (b.pushed.get(), b.consumed.get()));
    vensure!(consumed <= pushed, "phantom-item", "consumer obtained {consumed} items, producer pushed {pushed}");
    item::with_ledger(|l| {
        if let Some((idx, check)) = l.first_bad {
            vfail!("poison", "a slot that was never (completely) written was dropped as if it were an item: idx={idx:#x} check={check:#x} ({} such drops)", l.bad_drops);
        }
        for i in 0..pushed as usize {
            let d = l.drops.get(i).copied().unwrap_or(0);
            vensure!(d != 0, "leaked-item", "item {i} was pushed ({pushed} pushed, {consumed} consumed) but never dropped after both handles were dropped");
            vensure!(d == 1, "double-drop", "item {i} was dropped {d} times ({pushed} pushed, {consumed} consumed)");
        }
        for (i, d) in l.drops.iter().enumerate().skip(pushed as usize) {
            vensure!(*d == 0, "phantom-item", "item {i} was dropped {d} times but never pushed ({pushed} pushed)");
        }
    });

    let freed = heap::freed_accesses();
    let (flags, cond) = board(|b| {
        let mut f = 0;
        if b.tx_pending.get() > 0 {
            f |= F_TX_BLOCKED;
        }
        if b.rx_pending.get() > 0 {
            f |= F_RX_BLOCKED;
        }
        if b.close_resolved_pending.get() > 0 {
            f |= F_CLOSE_PENDING;
        }
        if pushed > ring {
            f |= F_WRAPPED;
        }
        if b.tx_saw_closed.get() {
            f |= F_TX_SAW_CLOSED;
        }
        if b.rx_saw_closed.get() {
            f |= F_RX_SAW_CLOSED;
        }
        if freed > 0 {
            f |= F_FREED_ACCESS;
        }
        if b.batches.get() >= 2 {
            f |= F_MULTI_BATCH;
        }
        if consumed < pushed {
            f |= F_LEFTOVER_FREED_BY_CLOSE;
        }
        if b.ack_parked.get() > 0 {
            f |= F_TX_AWAITED_CONSUMER;
        }
        let cond = b.close_resolved_pending.get() > 0 || (b.batches.get() >= 2 && b.rx_pending.get() > 0);
        (f, cond)
    });
    exec::commit(cond, flags, freed as u64);
}

fn plan(case: &SpscCase) -> Plan {
    Plan { seed: case.sched_seed, random: case.schedules, pct: case.schedules, depth: case.pct_depth }
}

fn sample(case: &SpscCase, agg: &exec::Agg) -> serde_json::Value {
    serde_json::json!({
        "case": case,
        "schedules": agg.execs,
        "schedules_with_preemption": agg.preempted,
        "schedules_nontrivial": agg.nontrivial,
    })
}

/// FIFO / wake-up / drop-accounting oracle. A late access to already freed channel state during
/// teardown is tolerated here (counted, memory is quarantined) and judged by `spsc_teardown`.
pub fn oracle(case: &SpscCase, obs: &mut Obs) -> CaseResult {
    let prog = Arc::new(case.clone());
    let out = exec::explore(plan(case), "spsc", OnFreedAccess::Count, move || run(&prog));
    let agg = exec::finish(out, obs, CLASSES)?;
    obs.sample = Some(sample(case, &agg));
    Ok(())
}

/// Same programs; the verdict is about memory lifetime only: no handle may touch the shared
/// state after the peer has deallocated it.
pub fn teardown_oracle(case: &SpscCase, obs: &mut Obs) -> CaseResult {
    let prog = Arc::new(case.clone());
    let out = exec::explore(plan(case), "spsc", OnFreedAccess::Fail, move || run(&prog));
    let agg = exec::finish(out, obs, CLASSES)?;
    obs.sample = Some(sample(case, &agg));
    Ok(())
}

fn count() -> impl Strategy<Value = u8> {
    prop_oneof![3 => 1u8..=2, 3 => 1u8..=5, 1 => 4u8..=9]
}

fn tx_op() -> impl Strategy<Value = TxOp> {
    prop_oneof![
        5 => count().prop_map(TxOp::AcquirePush),
        2 => count().prop_map(TxOp::TryPush),
        2 => (count(), any::<bool>()).prop_map(|(n, sync)| TxOp::SlicePush { n, sync }),
        5 => count().prop_map(TxOp::PushAll),
        1 => Just(TxOp::Acquire),
        2 => Just(TxOp::AwaitConsumed),
        1 => Just(TxOp::Yield),
    ]
}

fn rx_op() -> impl Strategy<Value = RxOp> {
    prop_oneof![
        5 => count().prop_map(RxOp::AcquirePop),
        2 => count().prop_map(RxOp::TryPop),
        2 => count().prop_map(RxOp::SlicePop),
        2 => count().prop_map(RxOp::PeekRelease),
        1 => Just(RxOp::Clear),
        4 => count().prop_map(RxOp::PopAll),
        1 => Just(RxOp::Acquire),
        1 => Just(RxOp::Yield),
    ]
}

fn case_strategy(schedules: u32) -> impl Strategy<Value = SpscCase> {
    (
        1u8..=4,
        prop::collection::vec(tx_op(), 0..7),
        prop::collection::vec(rx_op(), 0..7),
        prop::bool::weighted(0.6),
        any::<u64>(),
        1u8..=4,
    )
        .prop_map(move |(cap, tx, rx, drain, sched_seed, pct_depth)| SpscCase {
            cap,
            tx,
            rx,
            drain,
            sched_seed,
            pct_depth,
            schedules,
        })
}

fn programs_strategy(t: Tier) -> impl Strategy<Value = SpscCase> {
    case_strategy(t.pick(1000, 8000))
}

fn teardown_strategy(t: Tier) -> impl Strategy<Value = SpscCase> {
    case_strategy(t.pick(500, 4000))
}

pub fn subs() -> Vec<Box<dyn SubCheck>> {
    vec![
        Box::new(PropCheck::<SpscCase, _> {
            name: "spsc_programs",
            cases: |t| t.pick(640, 6000),
            strategy: programs_strategy,
            oracle,
            max_shrink_iters: 96,
        }),
        Box::new(PropCheck::<SpscCase, _> {
            name: "spsc_teardown",
            cases: |t| t.pick(160, 800),
            strategy: teardown_strategy,
            oracle: teardown_oracle,
            max_shrink_iters: 96,
        }),
    ]
}
