//! C17 / atomic_waker::pair: two attached handles; one task waits (check, register, re-check)
//! for signals of the other one or for its disappearance.
//!
//! Oracle: a waiter whose condition became true (a signal was published before `wake()`, or the
//! peer handle was dropped) is never left parked (shuttle deadlock = lost wake-up); `is_open()` /
//! `poll_close()` report "closed" only after the peer began to drop and always after it finished.

use crate::exec::{self, Plan};
use crate::heap::OnFreedAccess;
use crate::sync::atomic_waker::{self, Handle};
use crate::vensure;
use proptest::prelude::*;
use serde::{Deserialize, Serialize};
use shuttle::sync::atomic::{AtomicU32, Ordering};
use std::cell::Cell;
use std::sync::Arc;
use std::task::Poll;
use vcore::{CaseResult, Obs, PropCheck, SubCheck, Tier};

#[derive(Clone, Copy, Debug, Hash, PartialEq, Eq, Serialize, Deserialize)]
pub enum SigOp {
    /// publish one signal (counter increment), then `wake()`
    Signal,
    /// `wake()` without a signal (spurious)
    Wake,
    /// `register()` the own waker (nobody ever wakes it: must be harmless)
    Register,
    /// `is_open()` consistency
    CheckOpen,
    /// park (check, register, re-check on the own handle) until the waiter has acknowledged every
    /// signal sent so far or is gone: the wake-up of a signal must not depend on a later drop
    AwaitAck,
    Yield,
}

#[derive(Clone, Copy, Debug, Hash, PartialEq, Eq, Serialize, Deserialize)]
pub enum WaitOp {
    /// park until an unconsumed signal exists or the peer is gone
    Wait,
    /// `wake()` towards the signaller (nobody waits there: must be harmless)
    Wake,
    CheckOpen,
    Yield,
}

#[derive(Clone, Debug, Hash, PartialEq, Eq, Serialize, Deserialize)]
pub struct WakerCase {
    pub signaller: Vec<SigOp>,
    pub waiter: Vec<WaitOp>,
    /// the waiter finally awaits `poll_close()` (the signaller's drop) before dropping itself
    pub await_close: bool,
    /// which handle of the pair the waiter gets
    pub waiter_gets_first: bool,
    pub sched_seed: u64,
    pub pct_depth: u8,
    pub schedules: u32,
}

const F_WAIT_PENDING: u64 = 1;
const F_WOKEN_BY_CLOSE: u64 = 2;
const F_WOKEN_BY_SIGNAL: u64 = 4;
const F_WAITER_LEFT_FIRST: u64 = 8;
const F_ACK_PARKED: u64 = 16;

const CLASSES: &[(u64, &str)] = &[
    (F_WAIT_PENDING, "wait-was-pending"),
    (F_WOKEN_BY_CLOSE, "drop-resolved-a-pending-wait"),
    (F_WOKEN_BY_SIGNAL, "signal-resolved-a-pending-wait"),
    (F_WAITER_LEFT_FIRST, "signals-to-dropped-peer"),
    (F_ACK_PARKED, "signaller-parked-until-acknowledged"),
];

#[derive(Default)]
struct Board {
    sig_drop_started: Cell<bool>,
    sig_dropped: Cell<bool>,
    wait_drop_started: Cell<bool>,
    wait_dropped: Cell<bool>,
    wait_pending: Cell<u32>,
    by_close: Cell<u32>,
    by_signal: Cell<u32>,
    late_signal: Cell<bool>,
    ack_parked: Cell<u32>,
}

thread_local! {
    static BOARD: Board = Board::default();
}

fn board<R>(f: impl FnOnce(&Board) -> R) -> R {
    BOARD.with(|b| f(b))
}

async fn signaller(h: Handle, outbox: Arc<AtomicU32>, acked: Arc<AtomicU32>, prog: Arc<WakerCase>) {
    let mut sent = 0u32;
    for op in &prog.signaller {
        match *op {
            SigOp::Signal => {
                if board(|b| b.wait_dropped.get()) {
                    board(|b| b.late_signal.set(true));
                }
                sent += 1;
                outbox.fetch_add(1, Ordering::SeqCst);
                h.wake();
            }
            SigOp::AwaitAck => {
                let mut pend = 0u32;
                let by_close = std::future::poll_fn(|cx| {
                    for round in 0..2 {
                        if acked.load(Ordering::SeqCst) >= sent {
                            return Poll::Ready(false);
                        }
                        if !h.is_open() {
                            return Poll::Ready(true);
                        }
                        if round == 0 {
                            h.register(cx.waker());
                        }
                    }
                    pend += 1;
                    Poll::Pending
                })
                .await;
                if by_close {
                    vensure!(
                        board(|b| b.wait_drop_started.get()),
                        "spurious-closed",
                        "signaller: is_open() is false while the peer handle is alive"
                    );
                }
                if pend > 0 {
                    board(|b| b.ack_parked.set(b.ack_parked.get() + 1));
                }
            }
            SigOp::Wake => h.wake(),
            SigOp::Register => {
                std::future::poll_fn(|cx| {
                    h.register(cx.waker());
                    Poll::Ready(())
                })
                .await
            }
            SigOp::CheckOpen => {
                let done = board(|b| b.wait_dropped.get());
                let open = h.is_open();
                let started = board(|b| b.wait_drop_started.get());
                check_open_result("signaller", open, started, done);
            }
            SigOp::Yield => shuttle::future::yield_now().await,
        }
    }
    board(|b| b.sig_drop_started.set(true));
    drop(h);
    board(|b| b.sig_dropped.set(true));
}

async fn waiter(mut h: Handle, outbox: Arc<AtomicU32>, acked: Arc<AtomicU32>, prog: Arc<WakerCase>) {
    let mut seen = 0u32;
    for op in &prog.waiter {
        match *op {
            WaitOp::Wait => {
                let mut pend = 0u32;
                // check, register, re-check: the documented way to use an atomic waker
                let by_close = std::future::poll_fn(|cx| {
                    for round in 0..2 {
                        if outbox.load(Ordering::SeqCst) > seen {
                            seen += 1;
                            return Poll::Ready(false);
                        }
                        if !h.is_open() {
                            return Poll::Ready(true);
                        }
                        if round == 0 {
                            h.register(cx.waker());
                        }
                    }
                    pend += 1;
                    Poll::Pending
                })
                .await;
                if by_close {
                    vensure!(
                        board(|b| b.sig_drop_started.get()),
                        "spurious-closed",
                        "waiter: is_open() is false while the peer handle is alive"
                    );
                } else {
                    // acknowledge towards the signaller (the pair works in both directions)
                    acked.fetch_add(1, Ordering::SeqCst);
                    h.wake();
                }
                board(|b| {
                    if pend > 0 {
                        b.wait_pending.set(b.wait_pending.get() + 1);
                        if by_close {
                            b.by_close.set(b.by_close.get() + 1);
                        } else {
                            b.by_signal.set(b.by_signal.get() + 1);
                        }
                    }
                });
            }
            WaitOp::Wake => h.wake(),
            WaitOp::CheckOpen => {
                let done = board(|b| b.sig_dropped.get());
                let open = h.is_open();
                let started = board(|b| b.sig_drop_started.get());
                check_open_result("waiter", open, started, done);
            }
            WaitOp::Yield => shuttle::future::yield_now().await,
        }
    }
    if prog.await_close {
        // await the signaller's drop through poll_close(), consuming (and acknowledging) the
        // signals that still arrive
        loop {
            let mut pend = 0u32;
            let closed = std::future::poll_fn(|cx| {
                if outbox.load(Ordering::SeqCst) > seen {
                    seen += 1;
                    return Poll::Ready(false);
                }
                if h.poll_close(cx).is_ready() {
                    return Poll::Ready(true);
                }
                // poll_close() registered the waker
                if outbox.load(Ordering::SeqCst) > seen {
                    seen += 1;
                    return Poll::Ready(false);
                }
                pend += 1;
                Poll::Pending
            })
            .await;
            if pend > 0 {
                board(|b| {
                    b.wait_pending.set(b.wait_pending.get() + 1);
                    if closed {
                        b.by_close.set(b.by_close.get() + 1);
                    } else {
                        b.by_signal.set(b.by_signal.get() + 1);
                    }
                });
            }
            if closed {
                break;
            }
            acked.fetch_add(1, Ordering::SeqCst);
            h.wake();
        }
        vensure!(
            board(|b| b.sig_drop_started.get()),
            "spurious-closed",
            "waiter: poll_close() resolved while the peer handle is alive"
        );
    }
    board(|b| b.wait_drop_started.set(true));
    drop(h);
    board(|b| b.wait_dropped.set(true));
}

fn check_open_result(who: &str, open: bool, peer_started: bool, peer_done_before: bool) {
    vensure!(open || peer_started, "spurious-closed", "{who}: is_open() is false while the peer handle is alive");
    vensure!(!(open && peer_done_before), "closed-not-observed", "{who}: is_open() is true although the peer handle had been dropped completely");
}

fn run(prog: &Arc<WakerCase>) {
    board(|b| {
        b.sig_drop_started.set(false);
        b.sig_dropped.set(false);
        b.wait_drop_started.set(false);
        b.wait_dropped.set(false);
        b.wait_pending.set(0);
        b.by_close.set(0);
        b.by_signal.set(0);
        b.late_signal.set(false);
        b.ack_parked.set(0);
    });
    let (a, b) = atomic_waker::pair();
    let (hw, hs) = if prog.waiter_gets_first { (a, b) } else { (b, a) };
    let outbox = Arc::new(AtomicU32::new(0));
    let acked = Arc::new(AtomicU32::new(0));
    let (o1, o2) = (outbox.clone(), outbox);
    let (a1, a2) = (acked.clone(), acked);
    let (p1, p2) = (prog.clone(), prog.clone());
    let t1 = shuttle::thread::spawn(move || shuttle::future::block_on(waiter(hw, o1, a1, p1)));
    let t2 = shuttle::thread::spawn(move || shuttle::future::block_on(signaller(hs, o2, a2, p2)));
    t1.join().expect("waiter task");
    t2.join().expect("signaller task");
    let (flags, cond) = board(|b| {
        let mut f = 0;
        if b.wait_pending.get() > 0 {
            f |= F_WAIT_PENDING;
        }
        if b.by_close.get() > 0 {
            f |= F_WOKEN_BY_CLOSE;
        }
        if b.by_signal.get() > 0 {
            f |= F_WOKEN_BY_SIGNAL;
        }
        if b.late_signal.get() {
            f |= F_WAITER_LEFT_FIRST;
        }
        if b.ack_parked.get() > 0 {
            f |= F_ACK_PARKED;
        }
        (f, b.by_close.get() > 0 || b.by_signal.get() > 0)
    });
    exec::commit(cond, flags, 0);
}

pub fn oracle(case: &WakerCase, obs: &mut Obs) -> CaseResult {
    let prog = Arc::new(case.clone());
    let plan = Plan { seed: case.sched_seed, random: case.schedules, pct: case.schedules, depth: case.pct_depth };
    let out = exec::explore(plan, "waker", OnFreedAccess::Fail, move || run(&prog));
    let agg = exec::finish(out, obs, CLASSES)?;
    obs.sample = Some(serde_json::json!({
        "case": case,
        "schedules": agg.execs,
        "schedules_with_preemption": agg.preempted,
        "schedules_nontrivial": agg.nontrivial,
    }));
    Ok(())
}

fn sig_op() -> impl Strategy<Value = SigOp> {
    prop_oneof![
        6 => Just(SigOp::Signal),
        1 => Just(SigOp::Wake),
        1 => Just(SigOp::Register),
        1 => Just(SigOp::CheckOpen),
        3 => Just(SigOp::AwaitAck),
        1 => Just(SigOp::Yield),
    ]
}

fn wait_op() -> impl Strategy<Value = WaitOp> {
    prop_oneof![
        6 => Just(WaitOp::Wait),
        1 => Just(WaitOp::Wake),
        1 => Just(WaitOp::CheckOpen),
        1 => Just(WaitOp::Yield),
    ]
}

fn case_strategy(t: Tier) -> impl Strategy<Value = WakerCase> {
    let schedules = t.pick(1000, 8000);
    (
        prop::collection::vec(sig_op(), 0..6),
        prop::collection::vec(wait_op(), 0..6),
        any::<bool>(),
        any::<bool>(),
        any::<u64>(),
        1u8..=4,
    )
        .prop_map(move |(signaller, waiter, await_close, waiter_gets_first, sched_seed, pct_depth)| WakerCase {
            signaller,
            waiter,
            await_close,
            waiter_gets_first,
            sched_seed,
            pct_depth,
            schedules,
        })
}

pub fn subs() -> Vec<Box<dyn SubCheck>> {
    vec![Box::new(PropCheck::<WakerCase, _> {
        name: "atomic_waker_programs",
        cases: |t| t.pick(160, 1200),
        strategy: case_strategy,
        oracle,
        max_shrink_iters: 96,
    })]
}
