//! C17 / wakeup_queue (quic/s2n-quic-transport/src/wakeup_queue.rs): the queue through which connections wake
//! the endpoint task. The module is private; its real source file is compiled into this crate (harness/mirror.sh).
//!
//! Two sub-checks:
//!  * `wakeup_queue_ops` (std primitives, one thread): generated op sequences (poll with one of several distinct
//!    wakers, wakeup / wake-through-the-Wake-impl of one of several handles, wakeup_handled) against a reference
//!    model. Oracle: polls return exactly the handle ids woken since the last poll, once each, in order; and
//!    *no lost wake-up*: when the last poll found the queue empty (the caller parks with the waker it passed) and a
//!    handle is woken afterwards, that very waker has been woken (other wakers may be woken spuriously).
//!  * `wakeup_queue_threads` (shuttle Mutex/AtomicBool): 1..3 tasks wake their handles while one task polls and
//!    parks; shuttle's deadlock report (the poller parked for ever although a handle was woken) = lost wake-up, and
//!    every handle that was woken is reported at least once after its last wakeup.

use crate::exec::{self, Plan};
use crate::heap::OnFreedAccess;
use crate::vensure;
use proptest::prelude::*;
use serde::{Deserialize, Serialize};
use std::collections::VecDeque;
use std::sync::atomic::{AtomicU32, Ordering as StdOrdering};
use std::sync::Arc;
use std::task::{Context, Poll, Wake, Waker};
use vcore::{CaseResult, Fail, Obs, PropCheck, SubCheck, Tier};

#[path = "../../../gen/sync/wakeup_queue_std.rs"]
#[allow(dead_code, unused_imports, clippy::all)]
mod wq_std;

#[path = "../../../gen/sync/wakeup_queue_shuttle.rs"]
#[allow(dead_code, unused_imports, clippy::all)]
mod wq_shuttle;

// ---------------------------------------------------------------- sequential model check

#[derive(Clone, Copy, Debug, Hash, PartialEq, Eq, Serialize, Deserialize)]
pub enum QOp {
    /// `poll_pending_wakeups` with waker number `waker`
    Poll { waker: u8 },
    /// `WakeupHandle::wakeup()`
    Wakeup { handle: u8 },
    /// the `Wake` implementation of the handle (`wake_by_ref`)
    WakeByRef { handle: u8 },
    /// `WakeupHandle::wakeup_handled()`
    Handled { handle: u8 },
}

#[derive(Clone, Debug, Hash, PartialEq, Eq, Serialize, Deserialize)]
pub struct QCase {
    pub ops: Vec<QOp>,
}

struct CountWaker(AtomicU32);

impl Wake for CountWaker {
    fn wake(self: Arc<Self>) {
        self.0.fetch_add(1, StdOrdering::SeqCst);
    }
    fn wake_by_ref(self: &Arc<Self>) {
        self.0.fetch_add(1, StdOrdering::SeqCst);
    }
}

const WAKERS: usize = 3;
const HANDLES: usize = 3;

pub fn oracle_ops(case: &QCase, obs: &mut Obs) -> CaseResult {
    let counters: Vec<Arc<CountWaker>> = (0..WAKERS).map(|_| Arc::new(CountWaker(AtomicU32::new(0)))).collect();
    let wakers: Vec<Waker> = counters.iter().map(|c| Waker::from(c.clone())).collect();
    let count = |i: usize| counters[i].0.load(StdOrdering::SeqCst);

    let mut queue = wq_std::WakeupQueue::<u8>::new();
    let handles: Vec<Arc<wq_std::WakeupHandle<u8>>> = (0..HANDLES).map(|i| Arc::new(queue.create_wakeup_handle(i as u8))).collect();

    // reference model
    let mut pending: VecDeque<u8> = VecDeque::new();
    let mut flagged = [false; HANDLES];
    // the waker the caller parked with at its last (empty) poll, and that waker's count at that moment
    let mut parked: Option<(usize, u32)> = None;
    let (mut parked_woken, mut waker_changed_while_parked, mut dedup, mut nonempty_polls) = (0u32, 0u32, 0u32, 0u32);

    for (step, op) in case.ops.iter().enumerate() {
        match *op {
            QOp::Poll { waker } => {
                let w = waker as usize % WAKERS;
                let mut got = VecDeque::new();
                queue.poll_pending_wakeups(&mut got, &Context::from_waker(&wakers[w]));
                let want = std::mem::take(&mut pending);
                if got != want {
                    return Err(Fail::new(
                        "wakeup_queue:poll-result",
                        format!("step {step} {op:?}: poll returned {got:?}, the handles woken since the previous poll are {want:?} (each once, in order)"),
                    ));
                }
                if want.is_empty() {
                    if matches!(parked, Some((p, _)) if p != w) {
                        waker_changed_while_parked += 1;
                    }
                    parked = Some((w, count(w)));
                } else {
                    nonempty_polls += 1;
                    parked = None;
                }
            }
            QOp::Wakeup { handle } | QOp::WakeByRef { handle } => {
                let h = handle as usize % HANDLES;
                if matches!(op, QOp::Wakeup { .. }) {
                    handles[h].wakeup();
                } else {
                    Wake::wake_by_ref(&handles[h]);
                }
                if flagged[h] {
                    dedup += 1;
                } else {
                    flagged[h] = true;
                    pending.push_back(h as u8);
                }
                if let Some((w, at_park)) = parked {
                    if !pending.is_empty() {
                        if count(w) <= at_park {
                            return Err(Fail::new(
                                "wakeup_queue:lost-wake",
                                format!(
                                    "step {step} {op:?}: the last poll (waker {w}) found the queue empty, so its caller is parked on waker {w}; handle {h} has now been woken and the queue holds {pending:?}, but waker {w} was not woken (wake counts per waker: {:?})",
                                    (0..WAKERS).map(count).collect::<Vec<_>>()
                                ),
                            ));
                        }
                        parked_woken += 1;
                    }
                }
            }
            QOp::Handled { handle } => {
                let h = handle as usize % HANDLES;
                handles[h].wakeup_handled();
                flagged[h] = false;
            }
        }
    }
    obs.units = case.ops.len() as u64;
    obs.class_if(parked_woken > 0, "parked-poller-woken");
    obs.class_if(waker_changed_while_parked > 0, "waker-changed-while-parked");
    obs.class_if(dedup > 0, "wakeup-deduplicated");
    obs.class_if(nonempty_polls > 0, "poll-returned-handles");
    obs.nontrivial(parked_woken > 0 && waker_changed_while_parked > 0);
    Ok(())
}

fn q_op() -> impl Strategy<Value = QOp> {
    prop_oneof![
        4 => (0u8..WAKERS as u8).prop_map(|waker| QOp::Poll { waker }),
        4 => (0u8..HANDLES as u8).prop_map(|handle| QOp::Wakeup { handle }),
        1 => (0u8..HANDLES as u8).prop_map(|handle| QOp::WakeByRef { handle }),
        2 => (0u8..HANDLES as u8).prop_map(|handle| QOp::Handled { handle }),
    ]
}

/// all sequences of length <= 5 over a reduced alphabet (2 wakers, 2 handles)
fn enum_alphabet() -> Vec<QOp> {
    vec![
        QOp::Poll { waker: 0 },
        QOp::Poll { waker: 1 },
        QOp::Wakeup { handle: 0 },
        QOp::Wakeup { handle: 1 },
        QOp::Handled { handle: 0 },
        QOp::WakeByRef { handle: 1 },
    ]
}

fn enum_total(_t: Tier) -> u64 {
    let n = enum_alphabet().len() as u64;
    (1..=5).map(|l| n.pow(l)).sum()
}

fn enum_case(_t: Tier, mut idx: u64) -> QCase {
    let alpha = enum_alphabet();
    let n = alpha.len() as u64;
    let mut len = 1;
    while idx >= n.pow(len) {
        idx -= n.pow(len);
        len += 1;
    }
    let mut ops = vec![];
    for _ in 0..len {
        ops.push(alpha[(idx % n) as usize]);
        idx /= n;
    }
    QCase { ops }
}

// ---------------------------------------------------------------- schedule exploration

#[derive(Clone, Copy, Debug, Hash, PartialEq, Eq, Serialize, Deserialize)]
pub enum WOp {
    Wakeup,
    Yield,
}

#[derive(Clone, Debug, Hash, PartialEq, Eq, Serialize, Deserialize)]
pub struct TCase {
    /// one script per waking task (task i owns handle i)
    pub wakers: Vec<Vec<WOp>>,
    pub sched_seed: u64,
    pub pct_depth: u8,
    pub schedules: u32,
}

const F_PARKED: u64 = 1;
const F_DEDUP: u64 = 2;
const F_MULTI: u64 = 4;
const T_CLASSES: &[(u64, &str)] = &[(F_PARKED, "poller-parked"), (F_DEDUP, "wakeup-deduplicated"), (F_MULTI, "several-handles-in-one-poll")];

fn run_threads(case: &Arc<TCase>) {
    use shuttle::sync::atomic::{AtomicU32 as SAtomicU32, Ordering};
    let n = case.wakers.len();
    let mut queue = wq_shuttle::WakeupQueue::<u8>::new();
    let handles: Vec<Arc<wq_shuttle::WakeupHandle<u8>>> = (0..n).map(|i| Arc::new(queue.create_wakeup_handle(i as u8))).collect();
    // per task: wakeup() calls started / finish mark (set before the task's final wakeup)
    let started: Vec<Arc<SAtomicU32>> = (0..n).map(|_| Arc::new(SAtomicU32::new(0))).collect();
    let fin: Vec<Arc<SAtomicU32>> = (0..n).map(|_| Arc::new(SAtomicU32::new(0))).collect();
    let mut joins = vec![];
    for i in 0..n {
        let h = handles[i].clone();
        let st = started[i].clone();
        let f = fin[i].clone();
        let prog = case.clone();
        joins.push(shuttle::thread::spawn(move || {
            for op in &prog.wakers[i] {
                match op {
                    WOp::Wakeup => {
                        st.fetch_add(1, Ordering::SeqCst);
                        h.wakeup();
                    }
                    WOp::Yield => shuttle::thread::yield_now(),
                }
            }
            // "new state, then wake": the poller must get to see the mark
            f.store(1, Ordering::SeqCst);
            st.fetch_add(1, Ordering::SeqCst);
            h.wakeup();
        }));
    }
    let handles2 = handles.clone();
    let started2 = started.clone();
    let fin2 = fin.clone();
    let poller = shuttle::thread::spawn(move || {
        let mut seen = vec![0u32; n];
        let mut flags = 0u64;
        // closed[i]: after acknowledging a report of handle i the poller found task i's finish mark
        let mut closed = vec![false; n];
        shuttle::future::block_on(std::future::poll_fn(|cx: &mut Context| loop {
            let mut got = VecDeque::new();
            queue.poll_pending_wakeups(&mut got, cx);
            if got.is_empty() {
                if closed.iter().all(|c| *c) {
                    return Poll::Ready(());
                }
                // park: a handle whose task has not been seen finished will be woken again, and that must wake us
                flags |= F_PARKED;
                return Poll::Pending;
            }
            if got.len() > 1 {
                flags |= F_MULTI;
            }
            let mut dup = vec![false; n];
            for id in got {
                let i = id as usize;
                vensure!(i < n, "poll-result", "poll returned handle id {id}, only {n} handles exist");
                vensure!(!dup[i], "poll-result", "poll returned handle {i} twice in one batch");
                dup[i] = true;
                // the documented discipline: acknowledge first, then look at the component's state
                handles2[i].wakeup_handled();
                seen[i] += 1;
                let st = started2[i].load(Ordering::SeqCst);
                vensure!(seen[i] <= st, "poll-result", "handle {i} was reported {} times, its task has called wakeup() only {st} times", seen[i]);
                if fin2[i].load(Ordering::SeqCst) == 1 {
                    closed[i] = true;
                }
            }
        }));
        (seen, flags)
    });
    for j in joins {
        j.join().expect("waking task");
    }
    // every task set its mark and then woke its handle: the poller sees every mark after acknowledging a report of that
    // handle, unless a wake-up was lost - then it stays parked and shuttle reports the deadlock at this join
    let (seen, mut flags) = poller.join().expect("poller");
    for i in 0..n {
        let total = started[i].load(Ordering::SeqCst);
        vensure!(seen[i] >= 1, "lost-wake", "handle {i} was woken {total} times but never reported by a poll");
        if seen[i] < total {
            flags |= F_DEDUP;
        }
    }
    exec::commit(flags & F_PARKED != 0, flags, 0);
}

pub fn oracle_threads(case: &TCase, obs: &mut Obs) -> CaseResult {
    let prog = Arc::new(case.clone());
    let plan = Plan { seed: case.sched_seed, random: case.schedules, pct: case.schedules, depth: case.pct_depth };
    let out = exec::explore(plan, "wakeup_queue", OnFreedAccess::Fail, move || run_threads(&prog));
    let agg = exec::finish(out, obs, T_CLASSES)?;
    obs.sample = Some(serde_json::json!({ "case": case, "schedules": agg.execs, "schedules_with_preemption": agg.preempted, "schedules_nontrivial": agg.nontrivial }));
    Ok(())
}

fn t_case(t: Tier) -> impl Strategy<Value = TCase> {
    let schedules = t.pick(400, 4000);
    let script = prop::collection::vec(prop_oneof![3 => Just(WOp::Wakeup), 1 => Just(WOp::Yield)], 0..4);
    (prop::collection::vec(script, 1..=3), any::<u64>(), 1u8..=4).prop_map(move |(wakers, sched_seed, pct_depth)| TCase { wakers, sched_seed, pct_depth, schedules })
}

pub fn subs() -> Vec<Box<dyn SubCheck>> {
    vec![
        Box::new(vcore::EnumCheck::<QCase> { name: "wakeup_queue_ops_exhaustive", total: enum_total, case: enum_case, oracle: oracle_ops }),
        Box::new(PropCheck::<QCase, _> {
            name: "wakeup_queue_ops",
            cases: |t| t.pick(40_000, 2_000_000),
            strategy: |_t: Tier| prop::collection::vec(q_op(), 0..24).prop_map(|ops| QCase { ops }),
            oracle: oracle_ops,
            max_shrink_iters: 2000,
        }),
        Box::new(PropCheck::<TCase, _> { name: "wakeup_queue_threads", cases: |t| t.pick(96, 800), strategy: t_case, oracle: oracle_threads, max_shrink_iters: 64 }),
    ]
}
