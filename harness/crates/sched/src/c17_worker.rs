//! C17 / worker: m producers `Sender::submit(k)` against one `Receiver::acquire/finish` loop.
//!
//! Oracle: the receiver's `acquire()` never returns `Some(0)`, returns `None` only when no sender
//! handle is active any more, the total of finished credits equals the total submitted, and the
//! receiver never stays parked while work is outstanding or after the last sender went away
//! (shuttle deadlock = lost wake-up).

use crate::exec::{self, Plan};
use crate::heap::OnFreedAccess;
use crate::sync::primitive::AtomicWaker;
use crate::sync::worker;
use crate::vensure;
use proptest::prelude::*;
use serde::{Deserialize, Serialize};
use std::cell::Cell;
use std::future::Future;
use std::sync::Arc;
use std::task::Poll;
use vcore::{CaseResult, Obs, PropCheck, SubCheck, Tier};

#[derive(Clone, Copy, Debug, Hash, PartialEq, Eq, Serialize, Deserialize)]
pub enum WOp {
    Submit(u8),
    /// park until the receiver has finished everything submitted so far (by anyone): makes the
    /// producer depend on the receiver being woken by `submit` itself, not by a later drop
    AwaitAck,
    Yield,
}

#[derive(Clone, Copy, Debug, Hash, PartialEq, Eq, Serialize, Deserialize)]
pub enum Share {
    /// every producer task uses the one `Sender` handle (by reference); it is dropped by the
    /// producer that finishes last
    OneHandle,
    /// every producer task owns a `Sender::clone()`
    Clones,
}

#[derive(Clone, Debug, Hash, PartialEq, Eq, Serialize, Deserialize)]
pub struct WorkerCase {
    pub producers: Vec<Vec<WOp>>,
    /// how many credits the receiver finishes after each `acquire`
    pub recv_batch: u8,
    pub share: Share,
    pub sched_seed: u64,
    pub pct_depth: u8,
    pub schedules: u32,
}

const F_RX_BLOCKED: u64 = 1;
const F_NONE_AFTER_PENDING: u64 = 2;
const F_MULTI_PRODUCER: u64 = 4;
const F_PARTIAL_FINISH: u64 = 8;
const F_ACK_PARKED: u64 = 16;

const CLASSES: &[(u64, &str)] = &[
    (F_RX_BLOCKED, "receiver-acquire-was-pending"),
    (F_NONE_AFTER_PENDING, "sender-drop-resolved-a-pending-acquire"),
    (F_MULTI_PRODUCER, "two-or-more-producers"),
    (F_PARTIAL_FINISH, "credits-carried-over"),
    (F_ACK_PARKED, "producer-parked-until-work-was-finished"),
];

#[derive(Default)]
struct Board {
    submitted: Cell<u64>,
    finished: Cell<u64>,
    /// sender handles whose drop has not begun
    active_senders: Cell<u32>,
    rx_pending: Cell<u32>,
    none_after_pending: Cell<u32>,
    carried: Cell<bool>,
    ack_parked: Cell<u32>,
}

thread_local! {
    static BOARD: Board = Board::default();
}

fn board<R>(f: impl FnOnce(&Board) -> R) -> R {
    BOARD.with(|b| f(b))
}

/// a `Sender` whose drop is announced on the blackboard first
struct Tracked(Option<worker::Sender>);

impl Tracked {
    fn new(s: worker::Sender) -> Self {
        board(|b| b.active_senders.set(b.active_senders.get() + 1));
        Tracked(Some(s))
    }
    fn submit(&self, k: usize) {
        // the credits exist from the moment submit() is entered
        board(|b| b.submitted.set(b.submitted.get() + k as u64));
        self.0.as_ref().unwrap().submit(k);
    }
}

impl Drop for Tracked {
    fn drop(&mut self) {
        let _ = BOARD.try_with(|b| b.active_senders.set(b.active_senders.get().saturating_sub(1)));
        drop(self.0.take());
    }
}

fn producer(tx: &Tracked, ops: &[WOp], me: usize, acks: &[AtomicWaker]) {
    for op in ops {
        match *op {
            WOp::Submit(k) => tx.submit(k as usize),
            WOp::AwaitAck => {
                let target = board(|b| b.submitted.get());
                let mut pend = 0u32;
                shuttle::future::block_on(std::future::poll_fn(|cx| {
                    for round in 0..2 {
                        if board(|b| b.finished.get()) >= target {
                            return Poll::Ready(());
                        }
                        if round == 0 {
                            acks[me].register(cx.waker());
                        }
                    }
                    pend += 1;
                    Poll::Pending
                }));
                if pend > 0 {
                    board(|b| b.ack_parked.set(b.ack_parked.get() + 1));
                }
            }
            WOp::Yield => shuttle::thread::yield_now(),
        }
    }
}

async fn receiver(mut rx: worker::Receiver, batch: usize, acks: Arc<Vec<AtomicWaker>>) {
    let mut credits_held = 0usize;
    loop {
        let mut pend = 0u32;
        let r = {
            let mut fut = std::pin::pin!(rx.acquire());
            std::future::poll_fn(|cx| {
                let r = fut.as_mut().poll(cx);
                if r.is_pending() {
                    pend += 1;
                }
                r
            })
            .await
        };
        if pend > 0 {
            board(|b| b.rx_pending.set(b.rx_pending.get() + 1));
        }
        match r {
            Some(count) => {
                vensure!(count > 0, "acquire-zero", "receiver: acquire() returned Some(0)");
                vensure!(
                    count >= credits_held,
                    "credits-lost",
                    "receiver: acquire() returned {count} although {credits_held} unfinished credits were still held"
                );
                let (submitted, finished) = board(|b| (b.submitted.get(), b.finished.get()));
                vensure!(
                    finished + count as u64 <= submitted,
                    "phantom-work",
                    "receiver: acquire() returned {count} credits, {finished} already finished, but only {submitted} were ever submitted"
                );
                let f = count.min(batch);
                rx.finish(f);
                credits_held = count - f;
                if credits_held > 0 {
                    board(|b| b.carried.set(true));
                }
                board(|b| b.finished.set(b.finished.get() + f as u64));
                for a in acks.iter() {
                    a.wake();
                }
            }
            None => {
                if pend > 0 {
                    board(|b| b.none_after_pending.set(b.none_after_pending.get() + 1));
                }
                let active = board(|b| b.active_senders.get());
                vensure!(
                    active == 0,
                    "none-with-active-sender",
                    "receiver: acquire() returned None (\"no more active Senders\") while {active} sender handle(s) had not even begun to drop"
                );
                vensure!(credits_held == 0, "credits-lost", "receiver: acquire() returned None while {credits_held} credits were held");
                break;
            }
        }
    }
}

fn run(prog: &Arc<WorkerCase>) {
    board(|b| {
        b.submitted.set(0);
        b.finished.set(0);
        b.active_senders.set(0);
        b.rx_pending.set(0);
        b.none_after_pending.set(0);
        b.carried.set(false);
        b.ack_parked.set(0);
    });
    let (tx, rx) = worker::channel();
    let batch = prog.recv_batch.max(1) as usize;
    let acks: Arc<Vec<AtomicWaker>> = Arc::new((0..prog.producers.len()).map(|_| AtomicWaker::new()).collect());
    let ra = acks.clone();
    let hr = shuttle::thread::spawn(move || shuttle::future::block_on(receiver(rx, batch, ra)));
    let mut hs = vec![];
    match prog.share {
        Share::OneHandle => {
            // std Arc: sharing the handle is harness plumbing, not a scheduling point
            let tx = Arc::new(Tracked::new(tx));
            for i in 0..prog.producers.len() {
                let tx = tx.clone();
                let p = prog.clone();
                let acks = acks.clone();
                hs.push(shuttle::thread::spawn(move || {
                    producer(&tx, &p.producers[i], i, &acks);
                    drop(tx);
                }));
            }
            drop(tx);
        }
        Share::Clones => {
            let first = Tracked::new(tx);
            let mut handles = vec![];
            for _ in 1..prog.producers.len() {
                handles.push(Tracked::new(first.0.as_ref().unwrap().clone()));
            }
            handles.insert(0, first);
            for (i, tx) in handles.into_iter().enumerate() {
                let p = prog.clone();
                let acks = acks.clone();
                hs.push(shuttle::thread::spawn(move || {
                    producer(&tx, &p.producers[i], i, &acks);
                    drop(tx);
                }));
            }
        }
    }
    for h in hs {
        h.join().expect("producer task");
    }
    hr.join().expect("receiver task");
    let (submitted, finished) = board(|b| (b.submitted.get(), b.finished.get()));
    vensure!(
        submitted == finished,
        "lost-work",
        "{submitted} credits were submitted, the receiver finished {finished} before acquire() returned None"
    );
    let (flags, cond) = board(|b| {
        let mut f = 0;
        if b.rx_pending.get() > 0 {
            f |= F_RX_BLOCKED;
        }
        if b.none_after_pending.get() > 0 {
            f |= F_NONE_AFTER_PENDING;
        }
        if prog.producers.len() >= 2 {
            f |= F_MULTI_PRODUCER;
        }
        if b.carried.get() {
            f |= F_PARTIAL_FINISH;
        }
        if b.ack_parked.get() > 0 {
            f |= F_ACK_PARKED;
        }
        // the last sender going away raced with a parked receiver, or the receiver parked at
        // least once between two submissions
        let submits = prog.producers.iter().flatten().filter(|o| matches!(o, WOp::Submit(_))).count();
        (f, b.none_after_pending.get() > 0 || (submits >= 2 && b.rx_pending.get() > 0))
    });
    exec::commit(cond, flags, 0);
}

fn plan(case: &WorkerCase) -> Plan {
    Plan { seed: case.sched_seed, random: case.schedules, pct: case.schedules, depth: case.pct_depth }
}

fn oracle_with(prefix: &'static str, case: &WorkerCase, obs: &mut Obs) -> CaseResult {
    let prog = Arc::new(case.clone());
    let out = exec::explore(plan(case), prefix, OnFreedAccess::Fail, move || run(&prog));
    let agg = exec::finish(out, obs, CLASSES)?;
    obs.sample = Some(serde_json::json!({
        "case": case,
        "schedules": agg.execs,
        "schedules_with_preemption": agg.preempted,
        "schedules_nontrivial": agg.nontrivial,
    }));
    Ok(())
}

pub fn oracle(case: &WorkerCase, obs: &mut Obs) -> CaseResult {
    oracle_with("worker", case, obs)
}

/// `Sender::clone()` handles. Every symptom of "the set of active senders is not tracked" gets
/// one key: `None` while a sender is alive, work lost after that `None`, or a receiver that stays
/// parked after the last sender went away.
pub fn clone_oracle(case: &WorkerCase, obs: &mut Obs) -> CaseResult {
    oracle_with("worker-clone", case, obs).map_err(|f| {
        let symptom = f.key.strip_prefix("worker-clone:").unwrap_or(&f.key).to_string();
        if matches!(symptom.as_str(), "none-with-active-sender" | "lost-work" | "lost-wake") {
            vcore::Fail::new(
                "worker-clone:none-iff-no-active-sender",
                format!("[{symptom}] {} ({} cloned Sender handles)", f.msg, case.producers.len()),
            )
        } else {
            f
        }
    })
}

fn wop() -> impl Strategy<Value = WOp> {
    prop_oneof![5 => (1u8..=3).prop_map(WOp::Submit), 2 => Just(WOp::AwaitAck), 1 => Just(WOp::Yield)]
}

fn case_strategy(share: Share, min_producers: usize, schedules: u32) -> impl Strategy<Value = WorkerCase> {
    (
        prop::collection::vec(prop::collection::vec(wop(), 0..5), min_producers..4),
        1u8..=4,
        any::<u64>(),
        1u8..=4,
    )
        .prop_map(move |(producers, recv_batch, sched_seed, pct_depth)| WorkerCase {
            producers,
            recv_batch,
            share,
            sched_seed,
            pct_depth,
            schedules,
        })
}

fn programs_strategy(t: Tier) -> impl Strategy<Value = WorkerCase> {
    case_strategy(Share::OneHandle, 1, t.pick(1000, 8000))
}

fn clone_strategy(t: Tier) -> impl Strategy<Value = WorkerCase> {
    case_strategy(Share::Clones, 2, t.pick(250, 2000))
}

pub fn subs() -> Vec<Box<dyn SubCheck>> {
    vec![
        Box::new(PropCheck::<WorkerCase, _> {
            name: "worker_programs",
            cases: |t| t.pick(160, 1200),
            strategy: programs_strategy,
            oracle,
            max_shrink_iters: 96,
        }),
        Box::new(PropCheck::<WorkerCase, _> {
            name: "worker_clone_programs",
            cases: |t| t.pick(64, 160),
            strategy: clone_strategy,
            oracle: clone_oracle,
            max_shrink_iters: 96,
        }),
    ]
}
