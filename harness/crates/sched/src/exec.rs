//! Runs one generated thread program under many shuttle schedules and classifies the outcome.
//!
//! All schedule randomness derives from the seed carried by the generated case, so that
//! (program, seed, #schedules) is the replay unit: the same case re-explores the same schedules in
//! the same order and fails at the same one.
//!
//! shuttle reports a failing schedule by panicking inside `Runner::run`. The panic is caught here
//! and mapped:
//!   * a message produced by `verdict(..)` (prefix `VERIF-FAIL|`)  -> that verdict;
//!   * shuttle's `deadlock! blocked tasks: ..` -> `<prefix>:lost-wake` (all tasks blocked: someone
//!     is parked on an `acquire` that nobody will ever wake);
//!   * shuttle's step bound -> `<prefix>:livelock`;
//!   * a panic raised inside the mirrored sources (`gen/sync/..`, e.g. an `assume!`) ->
//!     `panic:<file>:<message>`;
//!   * anything else is a harness error (re-raised as a harness panic => exit 2).
//!
//! Each exploration runs on a fresh OS thread: a task that is abandoned in the middle of its
//! unwinding leaves `std::thread::panicking()` true for the thread it ran on.

use shuttle::scheduler::{PctScheduler, RandomScheduler, Schedule, Scheduler, Task, TaskId};
use std::cell::{Cell, RefCell};
use std::sync::{Arc, Once};

#[derive(Clone, Debug)]
struct PanicRec {
    file: String,
    line: u32,
    msg: String,
}

#[derive(Default, Clone, Copy, Debug)]
pub struct Agg {
    /// schedules executed
    pub execs: u64,
    /// schedules with >= 1 preemption
    pub preempted: u64,
    /// schedules that satisfied the check's own condition AND had >= 1 preemption
    pub nontrivial: u64,
    /// OR of the per-schedule class flags
    pub flags: u64,
    /// sum over schedules of the check's `weight` (e.g. accesses to freed state)
    pub weight: u64,
}

thread_local! {
    static IN_EXPLORE: Cell<bool> = const { Cell::new(false) };
    static FIRST_PANIC: RefCell<Option<PanicRec>> = const { RefCell::new(None) };
    static PREEMPT: Cell<u32> = const { Cell::new(0) };
    static EXEC_NO: Cell<u64> = const { Cell::new(0) };
    static AGG: Cell<Agg> = const { Cell::new(Agg { execs: 0, preempted: 0, nontrivial: 0, flags: 0, weight: 0 }) };
    static PREFIX: Cell<&'static str> = const { Cell::new("") };
}

const VERDICT: &str = "VERIF-FAIL|";

/// Raises a property verdict from inside a task (or the main task) of a shuttle execution.
/// `key` is completed with the prefix of the running check (`spsc:order`, ...).
#[track_caller]
pub fn verdict(key: &str, msg: String) -> ! {
    let prefix = PREFIX.with(|p| p.get());
    panic!("{VERDICT}{prefix}:{key}|{msg}");
}

#[macro_export]
macro_rules! vfail {
    ($key:expr, $($arg:tt)*) => {
        $crate::exec::verdict($key, format!($($arg)*))
    };
}

#[macro_export]
macro_rules! vensure {
    ($cond:expr, $key:expr, $($arg:tt)*) => {
        if !($cond) {
            $crate::exec::verdict($key, format!($($arg)*))
        }
    };
}

/// preemptions so far in the running schedule
pub fn preemptions() -> u32 {
    PREEMPT.with(|p| p.get())
}

/// Called once by the main task at the end of every schedule.
pub fn commit(condition: bool, flags: u64, weight: u64) {
    let p = preemptions();
    AGG.with(|a| {
        let mut v = a.get();
        v.execs += 1;
        if p > 0 {
            v.preempted += 1;
        }
        if condition && p > 0 {
            v.nontrivial += 1;
        }
        v.flags |= flags;
        v.weight += weight;
        a.set(v);
    });
}

fn install() {
    static ONCE: Once = Once::new();
    ONCE.call_once(|| {
        // the seed must come from the case only
        std::env::remove_var("SHUTTLE_RANDOM_SEED");
        std::env::set_var("SHUTTLE_SILENCE_WARNINGS", "1");
        // let shuttle install its (process wide, once) panic hook first, then put ours on top of
        // it: inside an exploration thread a panic is an expected way of reporting and is only
        // recorded; everywhere else the previous hooks (vcore's) keep working.
        let mut cfg = shuttle::Config::new();
        cfg.failure_persistence = shuttle::FailurePersistence::None;
        cfg.silence_warnings = true;
        shuttle::Runner::new(RandomScheduler::new_from_seed(0, 1), cfg).run(|| {});
        let prev = std::panic::take_hook();
        std::panic::set_hook(Box::new(move |info| {
            if IN_EXPLORE.with(|c| c.get()) {
                let msg = if let Some(s) = info.payload().downcast_ref::<&str>() {
                    s.to_string()
                } else if let Some(s) = info.payload().downcast_ref::<String>() {
                    s.clone()
                } else {
                    "<non-string panic payload>".to_string()
                };
                let (file, line) = info.location().map(|l| (l.file().to_string(), l.line())).unwrap_or_default();
                FIRST_PANIC.with(|p| {
                    let mut p = p.borrow_mut();
                    if p.is_none() {
                        *p = Some(PanicRec { file, line, msg });
                    }
                });
            } else {
                prev(info);
            }
        }));
    });
}

/// Counts preemptions: the scheduler moves away from a task that could have continued and did
/// not ask to yield.
struct Counting<S>(S);

impl<S: Scheduler> Scheduler for Counting<S> {
    fn new_execution(&mut self) -> Option<Schedule> {
        let s = self.0.new_execution();
        if s.is_some() {
            PREEMPT.with(|p| p.set(0));
            EXEC_NO.with(|e| e.set(e.get() + 1));
        }
        s
    }

    fn next_task(&mut self, runnable: &[&Task], current: Option<TaskId>, is_yielding: bool) -> Option<TaskId> {
        let next = self.0.next_task(runnable, current, is_yielding);
        if let (Some(n), Some(c)) = (next, current) {
            if n != c && !is_yielding && runnable.iter().any(|t| t.id() == c) {
                PREEMPT.with(|p| p.set(p.get() + 1));
            }
        }
        next
    }

    fn next_u64(&mut self) -> u64 {
        self.0.next_u64()
    }
}

#[derive(Clone, Copy, Debug)]
pub struct Plan {
    pub seed: u64,
    /// schedules drawn by the uniform random scheduler
    pub random: u32,
    /// schedules drawn by PCT
    pub pct: u32,
    /// PCT depth (number of priority change points + 1), 1..=4
    pub depth: u8,
}

pub enum Out {
    Pass(Agg),
    Fail(vcore::Fail),
    Harness(String),
}

fn config() -> shuttle::Config {
    let mut cfg = shuttle::Config::new();
    cfg.stack_size = 0x2_0000;
    cfg.failure_persistence = shuttle::FailurePersistence::None;
    // the generated programs are bounded (a few hundred scheduling points); only a genuine
    // busy loop between the tasks can get anywhere near this
    cfg.max_steps = shuttle::MaxSteps::FailAfter(200_000);
    cfg.silence_warnings = true;
    cfg.ungraceful_shutdown_config.immediately_return_on_panic = true;
    cfg
}

fn short(s: &str, n: usize) -> String {
    let line = s.lines().next().unwrap_or("");
    line.chars().take(n).collect()
}

fn classify(prefix: &str, rec: Option<PanicRec>, payload_msg: String, phase: &str, exec_no: u64, plan: &Plan) -> Out {
    let (file, line, msg) = match rec {
        Some(r) => (r.file, r.line, r.msg),
        None => (String::new(), 0, payload_msg),
    };
    let at = format!(
        "[{phase} scheduler, schedule #{exec_no} of this case; sched_seed={} random={} pct={} depth={}]",
        plan.seed, plan.random, plan.pct, plan.depth
    );
    if let Some(rest) = msg.strip_prefix(VERDICT) {
        let (key, detail) = rest.split_once('|').unwrap_or((rest, ""));
        return Out::Fail(vcore::Fail::new(key, format!("{detail} {at}")));
    }
    if msg.starts_with("deadlock!") {
        return Out::Fail(vcore::Fail::new(
            format!("{prefix}:lost-wake"),
            format!("every remaining task is blocked and nothing can wake it (shuttle: {}) {at}", short(&msg, 300)),
        ));
    }
    if msg.starts_with("exceeded max_steps") {
        return Out::Fail(vcore::Fail::new(
            format!("{prefix}:livelock"),
            format!("the bounded program did not terminate within 200000 scheduling points {at}"),
        ));
    }
    if file.contains("gen/sync/") || file.contains("s2n-quic-core/src/sync/") {
        let base = file.rsplit("sync/").next().unwrap_or(&file).to_string();
        return Out::Fail(vcore::Fail::new(
            format!("panic:{base}:{}", short(&msg, 60)),
            format!("code under test panicked at {file}:{line}: {msg} {at}"),
        ));
    }
    Out::Harness(format!("unexpected panic at {file}:{line}: {msg} {at}"))
}

/// Explores `plan.random + plan.pct` schedules of `body` (the main task of one execution).
pub fn explore(plan: Plan, prefix: &'static str, mode: crate::heap::OnFreedAccess, body: impl Fn() + Send + Sync + 'static) -> Out {
    install();
    let body = Arc::new(body);
    let handle = std::thread::Builder::new()
        .name("c17-explore".into())
        .stack_size(2 << 20)
        .spawn(move || {
            IN_EXPLORE.with(|c| c.set(true));
            PREFIX.with(|p| p.set(prefix));
            AGG.with(|a| a.set(Agg::default()));
            EXEC_NO.with(|e| e.set(0));
            crate::heap::watch(true, mode);
            let phase = Cell::new("random");
            let r = std::panic::catch_unwind(std::panic::AssertUnwindSafe(|| {
                if plan.random > 0 {
                    let b = body.clone();
                    let s = Counting(RandomScheduler::new_from_seed(plan.seed, plan.random as usize));
                    shuttle::Runner::new(s, config()).run(move || {
                        crate::heap::flush();
                        b()
                    });
                }
                if plan.pct > 0 {
                    phase.set("pct");
                    let b = body.clone();
                    let s = Counting(PctScheduler::new_from_seed(
                        plan.seed ^ 0x9E37_79B9_7F4A_7C15,
                        plan.depth.clamp(1, 8) as usize,
                        plan.pct as usize,
                    ));
                    shuttle::Runner::new(s, config()).run(move || {
                        crate::heap::flush();
                        b()
                    });
                }
            }));
            crate::heap::watch(false, crate::heap::OnFreedAccess::Count);
            crate::heap::flush();
            IN_EXPLORE.with(|c| c.set(false));
            match r {
                Ok(()) => Out::Pass(AGG.with(|a| a.get())),
                Err(payload) => {
                    let pm = if let Some(s) = payload.downcast_ref::<&str>() {
                        s.to_string()
                    } else if let Some(s) = payload.downcast_ref::<String>() {
                        s.clone()
                    } else {
                        "<non-string panic payload>".to_string()
                    };
                    let rec = FIRST_PANIC.with(|p| p.borrow_mut().take());
                    classify(prefix, rec, pm, phase.get(), EXEC_NO.with(|e| e.get()), &plan)
                }
            }
        })
        .expect("spawn exploration thread");
    match handle.join() {
        Ok(o) => o,
        Err(_) => Out::Harness("exploration thread died".into()),
    }
}

/// Turns an exploration result into the oracle's result (harness errors become harness panics).
pub fn finish(out: Out, obs: &mut vcore::Obs, classes: &[(u64, &'static str)]) -> Result<Agg, vcore::Fail> {
    match out {
        Out::Pass(agg) => {
            obs.units = agg.execs;
            obs.nontrivial(agg.nontrivial > 0);
            for (bit, name) in classes {
                obs.class_if(agg.flags & bit != 0, name);
            }
            obs.class_if(agg.preempted > 0, "some-schedule-preempted");
            Ok(agg)
        }
        Out::Fail(f) => Err(f),
        Out::Harness(m) => panic!("C17 harness error: {m}"),
    }
}
