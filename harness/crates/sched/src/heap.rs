//! Allocation watch for the code under test.
//!
//! `spsc` manages its shared state by hand (`alloc::alloc::alloc` / `dealloc`, no `Arc`). To make
//! "never expose an unwritten slot" and "both sides agree before the state is freed" observable,
//! the binary's global allocator does two things *while an exploration thread asks for it* and
//! only for cache-line-padded blocks (align >= 128: the spsc header+slots, the worker state and
//! the atomic_waker pair storage are the only such blocks):
//!
//! * a new block is filled with the `0xA5` sentinel, so that a slot that is read before it was
//!   written never looks like a valid item;
//! * a freed block is kept in quarantine (not returned to the allocator) until the end of the
//!   execution, so that a late access by the code under test reads intact memory and can be
//!   *reported* (by the primitives in `sync::primitive`) instead of corrupting the harness.

use std::alloc::{GlobalAlloc, Layout, System};
use std::cell::{Cell, UnsafeCell};

pub struct VerifAlloc;

pub const SENTINEL: u8 = 0xA5;
const WATCH_ALIGN: usize = 128;
const QMAX: usize = 64;

#[derive(Clone, Copy, PartialEq, Eq, Debug)]
pub enum OnFreedAccess {
    /// count it (per execution) and carry on: quarantined memory is intact
    Count,
    /// raise a verdict
    Fail,
}

struct Quarantine(UnsafeCell<[(usize, usize, usize); QMAX]>);

thread_local! {
    static ON: Cell<bool> = const { Cell::new(false) };
    static QN: Cell<usize> = const { Cell::new(0) };
    static Q: Quarantine = const { Quarantine(UnsafeCell::new([(0, 0, 0); QMAX])) };
    static MODE: Cell<OnFreedAccess> = const { Cell::new(OnFreedAccess::Count) };
    static FREED_ACCESSES: Cell<u32> = const { Cell::new(0) };
    static WATCHED_ALLOCS: Cell<u32> = const { Cell::new(0) };
}

#[inline]
fn on() -> bool {
    ON.try_with(|c| c.get()).unwrap_or(false)
}

unsafe impl GlobalAlloc for VerifAlloc {
    #[inline]
    unsafe fn alloc(&self, layout: Layout) -> *mut u8 {
        let p = System.alloc(layout);
        if layout.align() >= WATCH_ALIGN && !p.is_null() && on() {
            std::ptr::write_bytes(p, SENTINEL, layout.size());
            let _ = WATCHED_ALLOCS.try_with(|c| c.set(c.get() + 1));
        }
        p
    }

    #[inline]
    unsafe fn dealloc(&self, ptr: *mut u8, layout: Layout) {
        if layout.align() >= WATCH_ALIGN && on() {
            let kept = QN
                .try_with(|n| {
                    let i = n.get();
                    if i >= QMAX {
                        return false;
                    }
                    Q.try_with(|q| {
                        (*q.0.get())[i] = (ptr as usize, layout.size(), layout.align());
                    })
                    .is_ok()
                        && {
                            n.set(i + 1);
                            true
                        }
                })
                .unwrap_or(false);
            if kept {
                return;
            }
        }
        System.dealloc(ptr, layout)
    }
}

/// switches sentinel fill + quarantine on/off for the current OS thread
pub fn watch(enable: bool, mode: OnFreedAccess) {
    ON.with(|c| c.set(enable));
    MODE.with(|c| c.set(mode));
}

/// really frees everything in quarantine; resets the per-execution counters
pub fn flush() {
    let n = QN.with(|n| n.replace(0));
    Q.with(|q| {
        for i in 0..n {
            let (p, size, align) = unsafe { (*q.0.get())[i] };
            unsafe { System.dealloc(p as *mut u8, Layout::from_size_align_unchecked(size, align)) };
        }
    });
    FREED_ACCESSES.with(|c| c.set(0));
    WATCHED_ALLOCS.with(|c| c.set(0));
}

pub fn is_freed(p: *const u8) -> bool {
    let n = QN.with(|n| n.get());
    if n == 0 {
        return false;
    }
    let a = p as usize;
    Q.with(|q| {
        let q = unsafe { &*q.0.get() };
        q[..n].iter().any(|(s, len, _)| a >= *s && a < *s + *len)
    })
}

/// number of accesses to already freed blocks in this execution (mode `Count`)
pub fn freed_accesses() -> u32 {
    FREED_ACCESSES.with(|c| c.get())
}

/// called by the primitives after every access to one of their objects
#[inline]
pub fn touched(what: &'static str, p: *const u8) {
    if is_freed(p) {
        match MODE.with(|c| c.get()) {
            OnFreedAccess::Count => FREED_ACCESSES.with(|c| c.set(c.get() + 1)),
            OnFreedAccess::Fail => {
                // not while unwinding: a second panic inside a destructor would abort the process
                if !std::thread::panicking() {
                    crate::exec::verdict(
                        "use-after-free",
                        format!("{what} on shared state that the peer had already deallocated (the handle that performs the access is still inside its own close/drop)"),
                    );
                }
            }
        }
    }
}
