//! The payload type sent through the queues: a self-checking, drop-counted value.
//!
//! `Item { idx, check }` with `check == idx ^ POISON_KEY`. A slot that was never written holds the
//! allocator sentinel (0xA5..), a half-written one holds a mismatching pair; both are recognised
//! ("poison"). `Drop` only touches a per-execution ledger (no pointers), so that even a garbage
//! item can be dropped safely and is *recorded* instead of crashing the harness.

use std::cell::RefCell;

pub const POISON_KEY: u64 = 0x5ca1_ab1e_0dd5_eed5;
const DISARMED: u64 = 0xd15a_43ed_d15a_43ed;

#[derive(Default)]
pub struct Ledger {
    /// drops[idx] = number of times the item with that index was dropped
    pub drops: Vec<u8>,
    /// drops of values that are not valid items (unwritten / half written slots)
    pub bad_drops: u32,
    pub first_bad: Option<(u64, u64)>,
}

thread_local! {
    static LEDGER: RefCell<Ledger> = RefCell::new(Ledger::default());
}

pub fn ledger_reset() {
    LEDGER.with(|l| {
        let mut l = l.borrow_mut();
        l.drops.clear();
        l.bad_drops = 0;
        l.first_bad = None;
    });
}

pub fn with_ledger<R>(f: impl FnOnce(&mut Ledger) -> R) -> R {
    LEDGER.with(|l| f(&mut l.borrow_mut()))
}

#[repr(C)]
pub struct Item {
    pub idx: u64,
    pub check: u64,
}

impl Item {
    pub fn new(idx: u64) -> Self {
        Item { idx, check: idx ^ POISON_KEY }
    }

    #[inline]
    pub fn is_valid(&self) -> bool {
        self.check == self.idx ^ POISON_KEY && self.idx < (1 << 32)
    }

    /// the queue handed the value back (`PushError::Full`): it was never in the queue
    pub fn disarm(mut self) {
        self.idx = u64::MAX;
        self.check = DISARMED;
    }
}

impl Drop for Item {
    fn drop(&mut self) {
        if self.idx == u64::MAX && self.check == DISARMED {
            return;
        }
        let (idx, check, valid) = (self.idx, self.check, self.is_valid());
        // never panics: may run while unwinding
        let _ = LEDGER.try_with(|l| {
            if let Ok(mut l) = l.try_borrow_mut() {
                if valid {
                    let i = idx as usize;
                    if l.drops.len() <= i {
                        l.drops.resize(i + 1, 0);
                    }
                    l.drops[i] = l.drops[i].saturating_add(1);
                } else {
                    l.bad_drops += 1;
                    if l.first_bad.is_none() {
                        l.first_bad = Some((idx, check));
                    }
                }
            }
        });
    }
}
