//! `sched` — property C17: the lock-free queue / cursor / worker / waker primitives of
//! `s2n-quic-core::sync` lose nothing under any thread interleaving.
//!
//! Technique: generated thread programs x randomised schedules. The REAL sources are compiled
//! into this binary (see `harness/mirror.sh` and `primitive_shuttle.rs`) on top of shuttle's
//! primitives; shuttle owns the scheduler, so a (program, seed) pair replays exactly.

extern crate alloc;
#[macro_use]
extern crate s2n_quic_core;

#[path = "../../../gen/sync/mod.rs"]
mod sync;

mod c17_cursor;
mod c17_ring;
mod c17_spsc;
mod c17_waker;
mod c17_wakeup_queue;
mod c17_worker;
mod exec;
mod heap;
mod item;

#[global_allocator]
static ALLOC: heap::VerifAlloc = heap::VerifAlloc;

use vcore::Property;

pub fn property() -> Property {
    let mut subs = vec![];
    subs.extend(c17_spsc::subs());
    subs.extend(c17_worker::subs());
    subs.extend(c17_waker::subs());
    subs.extend(c17_cursor::subs());
    subs.extend(c17_ring::subs());
    subs.extend(c17_wakeup_queue::subs());
    Property {
        id: "C17",
        rule: RULE,
        assumptions: ASSUMPTIONS,
        subs,
        shards: 0,
    }
}

const RULE: &str = "Generated value = a bounded thread program plus a scheduler seed; every program is executed under S \
    schedules of shuttle's uniform random scheduler and S schedules of PCT (depth 1..4), all derived from the seed in \
    the case, so (program, seed, S) replays exactly. spsc: capacity 1..4, producer script (acquire+push n, try_slice, \
    slice/sync on the cached cursor, push-all-n blocking, bare acquire, yield; sender dropped at the end of the script or \
    on Closed) against a consumer script (acquire+pop n, try_slice, slice pop, peek+release n, clear, pop-all-n, bare \
    acquire, yield; then drain-until-Closed or drop at once), items are self-checking drop-counted values, slots are \
    pre-filled with a sentinel; worker: 1..3 producer tasks submit(k) through one Sender handle (worker_programs) or \
    through Sender::clone()s (worker_clone_programs) against one acquire/finish loop; atomic_waker::pair: a signaller \
    (signal+wake, spurious wake, register, is_open, drop) against a waiter (check/register/re-check wait, poll_close); \
    cursor: producer/consumer polling a 2/4/8-entry ring through sync::cursor. Oracle = reference FIFO (in order, once, \
    no unwritten slot), Closed only after / always after the peer dropped, everything pushed is obtained before Closed, \
    every pushed item dropped exactly once, credits conserved, and shuttle's deadlock report (all tasks blocked) = lost \
    wake-up. A schedule counts as non-trivial when it had >= 1 preemption AND (a close/drop resolved an acquire that had \
    returned Pending, OR >= 2 batches were pushed and the consumer's acquire returned Pending at least once) \
    [worker: the last sender's drop resolved a parked acquire or >= 2 submits with a parked receiver; waker: a parked \
    wait was resolved by a signal or by the peer's drop; cursor: the ring wrapped and one side found it full/empty; \
    ring_threads: ring wrapped and both OS threads parked at least once; wakeup_queue_ops: a parked poller was woken and the poller's waker changed while parked; wakeup_queue_threads: the poller parked]; a case is non-trivial when at least one of \
    its schedules is. Distinct = distinct (program, seed) values; work units = schedules executed (ring_threads: entries).";

const ASSUMPTIONS: &[&str] = &[
    "SCOPE REDUCTION: only thread interleavings under sequentially consistent atomics are explored (shuttle executes every atomic access as SeqCst and switches tasks only at atomics / waker operations). Reorderings that the C11 model allows for the Acquire/Release/Relaxed orderings actually written in the code are NOT explored: weakening an `Ordering` is invisible to this check.",
    "Bounded programs: <= 6 script steps per side, <= 9 items per step, capacity 1..4 (ring of 2..8 slots), <= 3 worker producers; schedules are sampled (random + PCT depth <= 4), not enumerated.",
    "The code under test is the working tree's quic/s2n-quic-core/src/sync/{spsc.rs,spsc/*,worker.rs,atomic_waker.rs} compiled unmodified through symlinks (harness/mirror.sh) and cursor.rs with its one `core::sync::atomic` import redirected; `sync/primitive.rs` is replaced by harness/crates/sched/primitive_shuttle.rs (shuttle atomics, shuttle Arc, an AtomicWaker whose register/wake/take are each one indivisible step after a scheduling point: the linearizable behaviour of the atomic-waker crate, which itself is trusted).",
    "The harness's global allocator fills cache-line-padded blocks with 0xA5 on allocation and quarantines them on free during an exploration, so that an unwritten slot and a post-free access are observable; the reference FIFO, the drop ledger and shuttle's scheduler / deadlock detection are the trusted base.",
    "spsc is single-producer/single-consumer: each handle is used by exactly one task; `mem::forget` of slices/handles is not exercised; zero-sized item types are not exercised.",
    "ring_threads (s2n-quic-platform socket::ring on real OS threads with yield_now injection) is the weakest tier: x86-TSO hardware interleavings only, not replayable; a hang is reported as harness failure (exit 2), never as a violation.",
    "quic/s2n-quic-transport/src/wakeup_queue.rs is a private module: its source file is compiled into this crate (symlink for the sequential model check wakeup_queue_ops; copy with its `std::sync::Mutex` / `core::sync::atomic::AtomicBool` imports redirected to shuttle for wakeup_queue_threads); `Arc` and `Waker` stay the std ones. The poller follows the documented discipline (wakeup_handled before looking at the component).",
];

fn main() {
    vcore::main_with(vec![property()])
}
