//! Generator helpers: boundary-biased integers, monotone index mapping, PRF payloads.

use proptest::prelude::*;

/// Maps a 16-bit choice monotonically onto `0..len` (so integer shrinking of the choice
/// moves towards index 0), instead of `%` which stalls shrinking.
pub fn pick_index(choice: u16, len: usize) -> usize {
    if len == 0 {
        return 0;
    }
    ((choice as usize) * len) >> 16
}

/// u64 values biased to the given boundary points (each ±2), to small values and to the
/// whole range `0..=max`.
pub fn biased_u64(max: u64, points: &'static [u64]) -> BoxedStrategy<u64> {
    let pts: Vec<u64> = points.iter().copied().filter(|p| *p <= max).collect();
    let near = if pts.is_empty() {
        Just(0u64).boxed()
    } else {
        (proptest::sample::select(pts), 0u64..=4)
            .prop_map(move |(p, d)| (p + d).saturating_sub(2).min(max))
            .boxed()
    };
    prop_oneof![
        3 => near,
        2 => 0u64..=max.min(16),
        2 => 0u64..=max.min(70_000),
        1 => 0u64..=max,
    ]
    .boxed()
}

/// The QUIC varint boundaries.
pub const VARINT_POINTS: &[u64] = &[
    0,
    63,
    64,
    16383,
    16384,
    (1 << 30) - 1,
    1 << 30,
    (1 << 62) - 1,
];

pub fn varint_value() -> BoxedStrategy<u64> {
    biased_u64((1 << 62) - 1, VARINT_POINTS)
}

/// Keyed, position-dependent payload: byte `o` of stream `key` (no period, unlike the
/// 256-periodic pattern of the in-tree tests).
#[inline]
pub fn prf_byte(key: u64, offset: u64) -> u8 {
    let mut z = key ^ offset.wrapping_mul(0x9E37_79B9_7F4A_7C15);
    z = (z ^ (z >> 30)).wrapping_mul(0xBF58_476D_1CE4_E5B9);
    z = (z ^ (z >> 27)).wrapping_mul(0x94D0_49BB_1331_11EB);
    (z ^ (z >> 31)) as u8
}

pub fn prf_fill(key: u64, offset: u64, out: &mut [u8]) {
    for (i, b) in out.iter_mut().enumerate() {
        *b = prf_byte(key, offset + i as u64);
    }
}

pub fn prf_vec(key: u64, offset: u64, len: usize) -> Vec<u8> {
    let mut v = vec![0u8; len];
    prf_fill(key, offset, &mut v);
    v
}

/// index of the first byte of `data` that differs from the PRF stream at `offset`
pub fn prf_mismatch(key: u64, offset: u64, data: &[u8]) -> Option<usize> {
    data.iter()
        .enumerate()
        .find(|(i, b)| **b != prf_byte(key, offset + *i as u64))
        .map(|(i, _)| i)
}
