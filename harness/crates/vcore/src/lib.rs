//! vcore — the engine shared by every check binary.
//!
//! A *property* (C01..C20) is decided by one or more *sub-checks*. Each sub-check is a
//! generator + oracle pair (`PropCheck`, driven by proptest with a fixed seed and
//! shrinking) or a complete enumeration (`EnumCheck`). A check run forks one worker
//! process per shard, merges their reports into `evidence/<ID>.json`, writes a replay file
//! for the (shrunk) first violation and prints the `VIOLATION` line.
//!
//! Exit codes: 0 held on everything explored, 1 violation, 2 harness failure / hang.

use proptest::strategy::{Strategy, ValueTree};
use proptest::test_runner::{Config, RngAlgorithm, TestCaseError, TestError, TestRng, TestRunner};
use serde::{de::DeserializeOwned, Deserialize, Serialize};
use serde_json::{json, Value};
use std::cell::RefCell;
use std::collections::{BTreeMap, HashSet};
use std::fmt::Debug;
use std::hash::{Hash, Hasher};
use std::path::{Path, PathBuf};
use std::time::{Duration, Instant};

pub mod gen;

// ---------------------------------------------------------------------------------------
// basic types

#[derive(Clone, Copy, Debug, PartialEq, Eq, Serialize, Deserialize)]
#[serde(rename_all = "lowercase")]
pub enum Tier {
    Quick,
    Thorough,
}

impl Tier {
    pub fn pick<T>(self, quick: T, thorough: T) -> T {
        match self {
            Tier::Quick => quick,
            Tier::Thorough => thorough,
        }
    }
    fn as_str(self) -> &'static str {
        match self {
            Tier::Quick => "quick",
            Tier::Thorough => "thorough",
        }
    }
}

/// What an oracle says about one failing case.
#[derive(Clone, Debug, Serialize, Deserialize)]
pub struct Fail {
    /// stable signature of the failing class (matched against known_findings.json)
    pub key: String,
    /// human readable description
    pub msg: String,
}

impl Fail {
    pub fn new(key: impl Into<String>, msg: impl Into<String>) -> Self {
        Fail { key: key.into(), msg: msg.into() }
    }
}

#[macro_export]
macro_rules! fail {
    ($key:expr, $($arg:tt)*) => {
        return Err($crate::Fail::new($key, format!($($arg)*)))
    };
}

#[macro_export]
macro_rules! ensure_that {
    ($cond:expr, $key:expr, $($arg:tt)*) => {
        if !($cond) {
            return Err($crate::Fail::new($key, format!($($arg)*)));
        }
    };
}

/// Per-case observations filled in by the oracle: classes (generator distribution),
/// whether the case is non-trivial by the property's stated rule.
#[derive(Default, Debug)]
pub struct Obs {
    pub nontrivial: bool,
    pub classes: Vec<&'static str>,
    /// optional replacement for the sample written into the evidence (for big cases)
    pub sample: Option<Value>,
    /// work units beyond "one case" (e.g. ops executed, mutants tried)
    pub units: u64,
    /// listed known findings that were met (and stepped over) while checking this case
    pub known: Vec<String>,
}

impl Obs {
    pub fn class(&mut self, c: &'static str) {
        if !self.classes.contains(&c) {
            self.classes.push(c);
        }
    }
    pub fn class_if(&mut self, cond: bool, c: &'static str) {
        if cond {
            self.class(c)
        }
    }
    pub fn nontrivial(&mut self, v: bool) {
        self.nontrivial |= v;
    }
    /// If `key` is a listed known finding of the running property: count it and return true,
    /// so that the oracle can step over exactly this occurrence and keep checking the case.
    pub fn step_over_known(&mut self, key: &str) -> bool {
        if is_known_key(key) {
            if !self.known.iter().any(|k| k == key) {
                self.known.push(key.to_string());
            }
            true
        } else {
            false
        }
    }
}

thread_local! {
    static KNOWN_KEYS: RefCell<Vec<String>> = const { RefCell::new(Vec::new()) };
}

/// keys of the listed known findings of the property being checked (set by the driver)
pub fn set_known_keys(keys: Vec<String>) {
    KNOWN_KEYS.with(|k| *k.borrow_mut() = keys);
}

pub fn is_known_key(key: &str) -> bool {
    KNOWN_KEYS.with(|k| k.borrow().iter().any(|x| x == key))
}

pub type CaseResult = Result<(), Fail>;

// ---------------------------------------------------------------------------------------
// panic capture

#[derive(Clone, Debug)]
pub struct PanicInfo {
    pub file: String,
    pub line: u32,
    pub msg: String,
}

thread_local! {
    static LAST_PANIC: RefCell<Option<PanicInfo>> = const { RefCell::new(None) };
    static QUIET: RefCell<bool> = const { RefCell::new(false) };
}

pub fn install_panic_hook() {
    let prev = std::panic::take_hook();
    std::panic::set_hook(Box::new(move |info| {
        let (file, line) = info
            .location()
            .map(|l| (l.file().to_string(), l.line()))
            .unwrap_or_default();
        let msg = if let Some(s) = info.payload().downcast_ref::<&str>() {
            s.to_string()
        } else if let Some(s) = info.payload().downcast_ref::<String>() {
            s.clone()
        } else {
            "<non-string panic payload>".to_string()
        };
        LAST_PANIC.with(|p| *p.borrow_mut() = Some(PanicInfo { file, line, msg }));
        if !QUIET.with(|q| *q.borrow()) {
            prev(info);
        }
    }));
}

/// Is the panic location inside the code under test (as opposed to the harness)?
pub fn panic_in_repo(p: &PanicInfo) -> bool {
    p.file.starts_with("/repo/") || p.file.contains("/s2n-quic") || p.file.contains("/s2n-codec")
}

fn panic_to_fail(p: &PanicInfo) -> Fail {
    let rel = p.file.trim_start_matches("/repo/");
    let short: String = p.msg.chars().take(80).collect();
    Fail::new(
        format!("panic:{}:{}", rel, short.split('\n').next().unwrap_or("")),
        format!("code under test panicked at {}:{}: {}", p.file, p.line, p.msg),
    )
}

pub enum Outcome {
    Pass(Obs),
    Fail(Fail),
    HarnessPanic(PanicInfo),
}

/// Runs one case with panics captured. A panic inside the code under test is a failure
/// of the running property; a panic in harness code is a harness error (exit 2).
pub fn run_case<T>(f: &dyn Fn(&T, &mut Obs) -> CaseResult, case: &T) -> Outcome {
    let mut obs = Obs::default();
    QUIET.with(|q| *q.borrow_mut() = true);
    LAST_PANIC.with(|p| *p.borrow_mut() = None);
    let r = std::panic::catch_unwind(std::panic::AssertUnwindSafe(|| f(case, &mut obs)));
    QUIET.with(|q| *q.borrow_mut() = false);
    match r {
        Ok(Ok(())) => Outcome::Pass(obs),
        Ok(Err(fail)) => Outcome::Fail(fail),
        Err(_) => {
            let p = LAST_PANIC
                .with(|p| p.borrow_mut().take())
                .unwrap_or(PanicInfo { file: String::new(), line: 0, msg: "unknown panic".into() });
            if panic_in_repo(&p) {
                Outcome::Fail(panic_to_fail(&p))
            } else {
                Outcome::HarnessPanic(p)
            }
        }
    }
}

// ---------------------------------------------------------------------------------------
// known findings

#[derive(Clone, Debug, Deserialize)]
pub struct KnownFinding {
    pub property: String,
    pub key: String,
    pub status: String, // "known" | "fixed"
    #[serde(default)]
    pub commit: Option<String>,
    pub what: String,
}

pub fn load_known(root: &Path) -> Vec<KnownFinding> {
    let p = root.join("known_findings.json");
    match std::fs::read_to_string(&p) {
        Ok(s) => serde_json::from_str(&s).unwrap_or_else(|e| {
            eprintln!("harness error: cannot parse {}: {e}", p.display());
            std::process::exit(2)
        }),
        Err(_) => vec![],
    }
}

// ---------------------------------------------------------------------------------------
// report (per shard, merged by the parent)

const DISTINCT_CAP: usize = 1 << 21;

#[derive(Default, Serialize, Deserialize, Debug)]
pub struct SubReport {
    pub evaluations: u64,
    pub units: u64,
    pub nontrivial_hashes: Vec<u64>,
    pub nontrivial_total: u64,
    pub distinct_capped: bool,
    pub classes: BTreeMap<String, u64>,
    pub samples: Vec<Value>,
    pub excluded_known: BTreeMap<String, u64>,
    pub exhaustive: bool,
    pub wall_s: f64,
}

#[derive(Serialize, Deserialize, Debug)]
pub struct ViolationRecord {
    pub property: String,
    pub sub: String,
    pub key: String,
    pub msg: String,
    pub replay: String,
}

#[derive(Default, Serialize, Deserialize, Debug)]
pub struct ShardReport {
    pub subs: BTreeMap<String, SubReport>,
    pub violation: Option<ViolationRecord>,
    pub harness_error: Option<String>,
}

pub struct Recorder {
    rep: SubReport,
    set: HashSet<u64>,
    max_samples: usize,
}

impl Recorder {
    fn new() -> Self {
        Recorder { rep: SubReport::default(), set: HashSet::new(), max_samples: 3 }
    }
    pub fn record<T: Hash + Serialize>(&mut self, case: &T, obs: Obs) {
        self.rep.evaluations += 1;
        self.rep.units += obs.units;
        for c in &obs.classes {
            *self.rep.classes.entry((*c).to_string()).or_default() += 1;
        }
        for k in &obs.known {
            *self.rep.excluded_known.entry(k.clone()).or_default() += 1;
        }
        if obs.nontrivial {
            self.rep.nontrivial_total += 1;
            if self.set.len() < DISTINCT_CAP {
                self.set.insert(hash_of(case));
            } else {
                self.rep.distinct_capped = true;
            }
            if self.rep.samples.len() < self.max_samples {
                let v = obs
                    .sample
                    .unwrap_or_else(|| serde_json::to_value(case).unwrap_or(Value::Null));
                self.rep.samples.push(truncate_value(v));
            }
        }
    }
    pub fn known(&mut self, key: &str) {
        *self.rep.excluded_known.entry(key.to_string()).or_default() += 1;
    }
    fn finish(mut self, wall: f64) -> SubReport {
        self.rep.nontrivial_hashes = self.set.into_iter().collect();
        self.rep.wall_s = wall;
        self.rep
    }
}

pub fn hash_of<T: Hash>(t: &T) -> u64 {
    #[allow(deprecated)]
    let mut h = std::hash::SipHasher::new_with_keys(0x5eed, 0xc0de);
    t.hash(&mut h);
    h.finish()
}

fn truncate_value(v: Value) -> Value {
    let s = v.to_string();
    if s.len() <= 6000 {
        v
    } else {
        json!({ "truncated_json": format!("{}…", &s[..s.char_indices().take_while(|(i, _)| *i < 6000).last().map(|(i, c)| i + c.len_utf8()).unwrap_or(0)]), "full_len": s.len() })
    }
}

// ---------------------------------------------------------------------------------------
// sub-checks

pub struct ShardCtx<'a> {
    pub property: &'a str,
    pub tier: Tier,
    pub seed: u64,
    pub shard: u32,
    pub shards: u32,
    pub root: &'a Path,
    pub known: &'a [KnownFinding],
}

impl ShardCtx<'_> {
    /// this shard's share of `total` cases
    pub fn share(&self, total: u64) -> u64 {
        let base = total / self.shards as u64;
        let rem = total % self.shards as u64;
        base + if (self.shard as u64) < rem { 1 } else { 0 }
    }
    pub fn is_known(&self, key: &str) -> bool {
        self.known
            .iter()
            .any(|k| k.property == self.property && k.status == "known" && k.key == key)
    }
    pub fn sub_seed(&self, sub: &str) -> [u8; 32] {
        let mut out = [0u8; 32];
        for (i, chunk) in out.chunks_mut(8).enumerate() {
            let h = hash_of(&(self.seed, self.property, sub, self.shard, i as u64));
            chunk.copy_from_slice(&h.to_le_bytes());
        }
        out
    }
}

pub enum SubOutcome {
    Held,
    Violation { key: String, msg: String, case: Value },
    HarnessError(String),
}

pub trait SubCheck {
    fn name(&self) -> &'static str;
    fn run(&self, ctx: &ShardCtx, rec: &mut Recorder) -> SubOutcome;
    /// re-executes exactly one saved case, bypassing the generator
    fn replay(&self, ctx: &ShardCtx, case: &Value) -> SubOutcome;
    fn exhaustive(&self) -> bool {
        false
    }
}

/// Generated-input search: proptest strategy + oracle function.
pub struct PropCheck<T, S> {
    pub name: &'static str,
    pub cases: fn(Tier) -> u64,
    pub strategy: fn(Tier) -> S,
    pub oracle: fn(&T, &mut Obs) -> CaseResult,
    pub max_shrink_iters: u32,
}

impl<T, S> SubCheck for PropCheck<T, S>
where
    T: Debug + Clone + Hash + Serialize + DeserializeOwned + 'static,
    S: Strategy<Value = T>,
{
    fn name(&self) -> &'static str {
        self.name
    }

    fn run(&self, ctx: &ShardCtx, rec: &mut Recorder) -> SubOutcome {
        let cases = ctx.share((self.cases)(ctx.tier));
        if cases == 0 {
            return SubOutcome::Held;
        }
        let config = Config {
            cases: cases.min(u32::MAX as u64) as u32,
            failure_persistence: None,
            max_shrink_iters: self.max_shrink_iters,
            max_global_rejects: 1 << 20,
            ..Config::default()
        };
        let rng = TestRng::from_seed(RngAlgorithm::ChaCha, &ctx.sub_seed(self.name));
        let mut runner = TestRunner::new_with_rng(config, rng);
        let strategy = (self.strategy)(ctx.tier);
        let failed = RefCell::new(false);
        let harness_err: RefCell<Option<String>> = RefCell::new(None);
        let rec = RefCell::new(rec);
        let oracle = self.oracle;
        let result = runner.run(&strategy, |case| {
            match run_case(&oracle, &case) {
                Outcome::Pass(obs) => {
                    if !*failed.borrow() {
                        rec.borrow_mut().record(&case, obs);
                    }
                    Ok(())
                }
                Outcome::Fail(f) => {
                    if ctx.is_known(&f.key) {
                        if !*failed.borrow() {
                            rec.borrow_mut().known(&f.key);
                        }
                        Ok(())
                    } else {
                        *failed.borrow_mut() = true;
                        Err(TestCaseError::fail(f.key))
                    }
                }
                Outcome::HarnessPanic(p) => {
                    // treated as failure so that proptest shrinks it too; classified below
                    *failed.borrow_mut() = true;
                    *harness_err.borrow_mut() =
                        Some(format!("harness panic at {}:{}: {}", p.file, p.line, p.msg));
                    Err(TestCaseError::fail("harness-panic"))
                }
            }
        });
        match result {
            Ok(()) => SubOutcome::Held,
            Err(TestError::Fail(_, case)) => {
                // classify the shrunk case by one last clean execution
                match run_case(&oracle, &case) {
                    Outcome::Fail(f) if !ctx.is_known(&f.key) => SubOutcome::Violation {
                        key: f.key,
                        msg: f.msg,
                        case: serde_json::to_value(&case).unwrap_or(Value::Null),
                    },
                    Outcome::HarnessPanic(p) => SubOutcome::HarnessError(format!(
                        "harness panic at {}:{}: {} (case: {})",
                        p.file,
                        p.line,
                        p.msg,
                        serde_json::to_string(&case).unwrap_or_default()
                    )),
                    _ => SubOutcome::HarnessError(format!(
                        "failure did not reproduce on re-execution of the shrunk case (flaky oracle?): {:?}; earlier harness error: {:?}",
                        serde_json::to_string(&case).unwrap_or_default(),
                        harness_err.borrow()
                    )),
                }
            }
            Err(TestError::Abort(r)) => {
                SubOutcome::HarnessError(format!("proptest aborted: {r} (generator rejects too much)"))
            }
        }
    }

    fn replay(&self, ctx: &ShardCtx, case: &Value) -> SubOutcome {
        let case: T = match serde_json::from_value(case.clone()) {
            Ok(c) => c,
            Err(e) => return SubOutcome::HarnessError(format!("replay file does not parse: {e}")),
        };
        outcome_of(ctx, run_case(&self.oracle, &case), &case)
    }
}

fn outcome_of<T: Serialize>(ctx: &ShardCtx, o: Outcome, case: &T) -> SubOutcome {
    match o {
        Outcome::Pass(obs) => {
            for k in &obs.known {
                println!("KNOWN-FINDING: property={} {}", ctx.property, k);
            }
            SubOutcome::Held
        }
        Outcome::Fail(f) => {
            if ctx.is_known(&f.key) {
                println!("KNOWN-FINDING: property={} {}", ctx.property, f.key);
                SubOutcome::Held
            } else {
                SubOutcome::Violation {
                    key: f.key,
                    msg: f.msg,
                    case: serde_json::to_value(case).unwrap_or(Value::Null),
                }
            }
        }
        Outcome::HarnessPanic(p) => {
            SubOutcome::HarnessError(format!("harness panic at {}:{}: {}", p.file, p.line, p.msg))
        }
    }
}

/// Complete enumeration of a finite space (no shrinking; cases are small by construction).
pub struct EnumCheck<T> {
    pub name: &'static str,
    pub total: fn(Tier) -> u64,
    pub case: fn(Tier, u64) -> T,
    pub oracle: fn(&T, &mut Obs) -> CaseResult,
}

impl<T> SubCheck for EnumCheck<T>
where
    T: Debug + Clone + Hash + Serialize + DeserializeOwned + 'static,
{
    fn name(&self) -> &'static str {
        self.name
    }
    fn exhaustive(&self) -> bool {
        true
    }
    fn run(&self, ctx: &ShardCtx, rec: &mut Recorder) -> SubOutcome {
        let total = (self.total)(ctx.tier);
        let mut i = ctx.shard as u64;
        while i < total {
            let case = (self.case)(ctx.tier, i);
            match run_case(&self.oracle, &case) {
                Outcome::Pass(obs) => rec.record(&case, obs),
                Outcome::Fail(f) => {
                    if ctx.is_known(&f.key) {
                        rec.known(&f.key);
                    } else {
                        return SubOutcome::Violation {
                            key: f.key,
                            msg: f.msg,
                            case: serde_json::to_value(&case).unwrap_or(Value::Null),
                        };
                    }
                }
                Outcome::HarnessPanic(p) => {
                    return SubOutcome::HarnessError(format!(
                        "harness panic at {}:{}: {} (case {:?})",
                        p.file, p.line, p.msg, case
                    ))
                }
            }
            i += ctx.shards as u64;
        }
        SubOutcome::Held
    }
    fn replay(&self, ctx: &ShardCtx, case: &Value) -> SubOutcome {
        let case: T = match serde_json::from_value(case.clone()) {
            Ok(c) => c,
            Err(e) => return SubOutcome::HarnessError(format!("replay file does not parse: {e}")),
        };
        outcome_of(ctx, run_case(&self.oracle, &case), &case)
    }
}

// ---------------------------------------------------------------------------------------
// property registry + driver

pub struct Property {
    pub id: &'static str,
    /// how cases are generated and what makes one non-trivial
    pub rule: &'static str,
    pub assumptions: &'static [&'static str],
    pub subs: Vec<Box<dyn SubCheck>>,
    /// number of worker processes (0 = all cores)
    pub shards: u32,
}

pub fn verif_root() -> PathBuf {
    if let Ok(r) = std::env::var("VERIF_ROOT") {
        return PathBuf::from(r);
    }
    PathBuf::from("/verif")
}

fn seed_from_env() -> u64 {
    std::env::var("VERIF_SEED")
        .ok()
        .and_then(|s| s.trim().parse::<i128>().ok())
        .map(|v| v as u64)
        .unwrap_or(0)
}

fn usage() -> ! {
    eprintln!("usage: <bin> run <ID> --tier quick|thorough [--only <sub>] [--shards N]\n       <bin> shard <ID> --tier T --shard i --of n --out <file> [--only <sub>]\n       <bin> replay <ID> <file>\n       <bin> list");
    std::process::exit(2)
}

pub fn main_with(registry: Vec<Property>) -> ! {
    install_panic_hook();
    let args: Vec<String> = std::env::args().collect();
    if args.len() < 2 {
        usage();
    }
    let get = |flag: &str| -> Option<String> {
        args.iter().position(|a| a == flag).and_then(|i| args.get(i + 1).cloned())
    };
    match args[1].as_str() {
        "list" => {
            for p in &registry {
                println!("{} {}", p.id, p.subs.iter().map(|s| s.name()).collect::<Vec<_>>().join(","));
            }
            std::process::exit(0)
        }
        "run" | "shard" | "replay" => {}
        _ => usage(),
    }
    let id = args.get(2).cloned().unwrap_or_else(|| usage());
    let prop = registry.iter().find(|p| p.id == id).unwrap_or_else(|| {
        eprintln!("harness error: property {id} is not served by this binary");
        std::process::exit(2)
    });
    let root = verif_root();
    let known = load_known(&root);
    let seed = seed_from_env();
    let tier = match get("--tier").as_deref() {
        Some("thorough") => Tier::Thorough,
        Some("quick") | None => Tier::Quick,
        _ => usage(),
    };
    let only = get("--only");
    match args[1].as_str() {
        "run" => {
            let shards = get("--shards").and_then(|s| s.parse().ok()).unwrap_or(prop.shards);
            let shards = if shards == 0 {
                std::thread::available_parallelism().map(|n| n.get() as u32).unwrap_or(8)
            } else {
                shards
            };
            run_parent(prop, &root, &known, tier, seed, shards, only.as_deref())
        }
        "shard" => {
            let shard: u32 = get("--shard").and_then(|s| s.parse().ok()).unwrap_or_else(|| usage());
            let of: u32 = get("--of").and_then(|s| s.parse().ok()).unwrap_or_else(|| usage());
            let out = get("--out").unwrap_or_else(|| usage());
            let ctx = ShardCtx { property: prop.id, tier, seed, shard, shards: of, root: &root, known: &known };
            set_known_keys(known.iter().filter(|k| k.property == prop.id && k.status == "known").map(|k| k.key.clone()).collect());
            let rep = run_shard(prop, &ctx, only.as_deref());
            let code = if rep.violation.is_some() {
                1
            } else if rep.harness_error.is_some() {
                2
            } else {
                0
            };
            std::fs::write(&out, serde_json::to_vec(&rep).unwrap()).unwrap();
            std::process::exit(code)
        }
        "replay" => {
            let file = args.get(3).cloned().unwrap_or_else(|| usage());
            let ctx = ShardCtx { property: prop.id, tier, seed, shard: 0, shards: 1, root: &root, known: &known };
            set_known_keys(known.iter().filter(|k| k.property == prop.id && k.status == "known").map(|k| k.key.clone()).collect());
            std::process::exit(replay_file(prop, &ctx, Path::new(&file), true))
        }
        _ => usage(),
    }
}

#[derive(Serialize, Deserialize)]
struct ReplayFile {
    property: String,
    sub: String,
    #[serde(default)]
    key: String,
    #[serde(default)]
    msg: String,
    case: Value,
}

fn replay_file(prop: &Property, ctx: &ShardCtx, file: &Path, verbose: bool) -> i32 {
    let s = match std::fs::read_to_string(file) {
        Ok(s) => s,
        Err(e) => {
            eprintln!("harness error: cannot read {}: {e}", file.display());
            return 2;
        }
    };
    let rf: ReplayFile = match serde_json::from_str(&s) {
        Ok(r) => r,
        Err(e) => {
            eprintln!("harness error: cannot parse {}: {e}", file.display());
            return 2;
        }
    };
    let Some(sub) = prop.subs.iter().find(|s| s.name() == rf.sub) else {
        eprintln!("harness error: {} has no sub-check {}", prop.id, rf.sub);
        return 2;
    };
    match sub.replay(ctx, &rf.case) {
        SubOutcome::Held => {
            if verbose {
                println!("replay {}: property {} held on this case", file.display(), prop.id);
            }
            0
        }
        SubOutcome::Violation { key, msg, .. } => {
            println!("replay {}: [{}] {}", file.display(), key, msg);
            println!("VIOLATION property={} replay={}", prop.id, file.display());
            1
        }
        SubOutcome::HarnessError(e) => {
            eprintln!("harness error during replay: {e}");
            2
        }
    }
}

fn write_replay(root: &Path, property: &str, sub: &str, key: &str, msg: &str, case: &Value) -> String {
    let dir = root.join("out/replay");
    let _ = std::fs::create_dir_all(&dir);
    let h = hash_of(&case.to_string());
    let path = dir.join(format!("{property}-{sub}-{h:016x}.json"));
    let rf = ReplayFile {
        property: property.into(),
        sub: sub.into(),
        key: key.into(),
        msg: msg.into(),
        case: case.clone(),
    };
    std::fs::write(&path, serde_json::to_string_pretty(&rf).unwrap()).unwrap();
    path.display().to_string()
}

fn run_shard(prop: &Property, ctx: &ShardCtx, only: Option<&str>) -> ShardReport {
    let mut rep = ShardReport::default();
    // committed regressions first (shard 0 only)
    if ctx.shard == 0 && only.is_none() {
        let dir = ctx.root.join("regress").join(prop.id);
        if let Ok(rd) = std::fs::read_dir(&dir) {
            let mut files: Vec<_> = rd.filter_map(|e| e.ok().map(|e| e.path())).filter(|p| p.extension().map(|e| e == "json").unwrap_or(false)).collect();
            files.sort();
            for f in files {
                match replay_file(prop, ctx, &f, false) {
                    0 => {}
                    1 => {
                        rep.violation = Some(ViolationRecord {
                            property: prop.id.into(),
                            sub: "regress".into(),
                            key: "regression".into(),
                            msg: format!("committed regression case {} fails again", f.display()),
                            replay: f.display().to_string(),
                        });
                        return rep;
                    }
                    _ => {
                        rep.harness_error = Some(format!("regression replay {} errored", f.display()));
                        return rep;
                    }
                }
            }
        }
    }
    for sub in &prop.subs {
        if let Some(o) = only {
            if sub.name() != o {
                continue;
            }
        }
        let t0 = Instant::now();
        let mut rec = Recorder::new();
        let out = sub.run(ctx, &mut rec);
        let mut sr = rec.finish(t0.elapsed().as_secs_f64());
        sr.exhaustive = sub.exhaustive();
        rep.subs.insert(sub.name().to_string(), sr);
        match out {
            SubOutcome::Held => {}
            SubOutcome::Violation { key, msg, case } => {
                let replay = write_replay(ctx.root, prop.id, sub.name(), &key, &msg, &case);
                rep.violation = Some(ViolationRecord {
                    property: prop.id.into(),
                    sub: sub.name().into(),
                    key,
                    msg,
                    replay,
                });
                return rep;
            }
            SubOutcome::HarnessError(e) => {
                rep.harness_error = Some(format!("{}: {}", sub.name(), e));
                return rep;
            }
        }
    }
    rep
}

fn run_parent(
    prop: &Property,
    root: &Path,
    known: &[KnownFinding],
    tier: Tier,
    seed: u64,
    shards: u32,
    only: Option<&str>,
) -> ! {
    let t0 = Instant::now();
    let exe = std::env::current_exe().expect("current_exe");
    let tmp = root.join("out/shards").join(format!("{}-{}", prop.id, std::process::id()));
    let _ = std::fs::create_dir_all(&tmp);
    let mut children = vec![];
    for i in 0..shards {
        let out = tmp.join(format!("{i}.json"));
        let mut cmd = std::process::Command::new(&exe);
        cmd.arg("shard")
            .arg(prop.id)
            .arg("--tier")
            .arg(tier.as_str())
            .arg("--shard")
            .arg(i.to_string())
            .arg("--of")
            .arg(shards.to_string())
            .arg("--out")
            .arg(&out)
            .env("VERIF_SEED", (seed as i64).to_string())
            .env("VERIF_ROOT", root);
        if let Some(o) = only {
            cmd.arg("--only").arg(o);
        }
        let log = std::fs::File::create(tmp.join(format!("{i}.log"))).unwrap();
        cmd.stdout(log.try_clone().unwrap()).stderr(log);
        children.push((i, out, cmd.spawn().expect("spawn shard"), None::<i32>));
    }
    let budget = std::env::var("VERIF_WATCHDOG_S")
        .ok()
        .and_then(|s| s.parse().ok())
        .unwrap_or(tier.pick(1500u64, 6 * 3600));
    let deadline = t0 + Duration::from_secs(budget);
    let mut timed_out = false;
    let mut stop_early = false;
    loop {
        let mut running = 0;
        for (_, _, child, status) in children.iter_mut() {
            if status.is_none() {
                match child.try_wait() {
                    Ok(Some(st)) => {
                        let code = st.code().unwrap_or(2);
                        *status = Some(code);
                        if code == 1 {
                            stop_early = true;
                        }
                    }
                    Ok(None) => running += 1,
                    Err(_) => *status = Some(2),
                }
            }
        }
        if running == 0 {
            break;
        }
        if Instant::now() > deadline {
            timed_out = true;
        }
        if timed_out || stop_early {
            for (_, _, child, status) in children.iter_mut() {
                if status.is_none() {
                    let _ = child.kill();
                    let _ = child.wait();
                    *status = Some(if timed_out { 124 } else { -1 });
                }
            }
            break;
        }
        std::thread::sleep(Duration::from_millis(20));
    }

    // merge
    let mut merged: BTreeMap<String, SubReport> = BTreeMap::new();
    let mut sets: BTreeMap<String, HashSet<u64>> = BTreeMap::new();
    let mut violations: Vec<ViolationRecord> = vec![];
    let mut errors: Vec<String> = vec![];
    for (i, out, _, status) in &children {
        let status = status.unwrap_or(2);
        let rep: Option<ShardReport> =
            std::fs::read(out).ok().and_then(|b| serde_json::from_slice(&b).ok());
        match rep {
            Some(rep) => {
                for (name, sr) in rep.subs {
                    let m = merged.entry(name.clone()).or_default();
                    m.evaluations += sr.evaluations;
                    m.units += sr.units;
                    m.nontrivial_total += sr.nontrivial_total;
                    m.distinct_capped |= sr.distinct_capped;
                    m.exhaustive |= sr.exhaustive;
                    m.wall_s = m.wall_s.max(sr.wall_s);
                    for (k, v) in sr.classes {
                        *m.classes.entry(k).or_default() += v;
                    }
                    for (k, v) in sr.excluded_known {
                        *m.excluded_known.entry(k).or_default() += v;
                    }
                    if m.samples.len() < 4 {
                        m.samples.extend(sr.samples.into_iter().take(1));
                    }
                    sets.entry(name).or_default().extend(sr.nontrivial_hashes);
                }
                if let Some(v) = rep.violation {
                    violations.push(v);
                }
                if let Some(e) = rep.harness_error {
                    errors.push(format!("shard {i}: {e}"));
                }
            }
            None => {
                if status == -1 {
                    // killed after another shard reported a violation
                } else if status == 124 {
                    errors.push(format!("shard {i}: killed by watchdog after {budget}s"));
                } else {
                    let log = std::fs::read_to_string(tmp.join(format!("{i}.log"))).unwrap_or_default();
                    let tail: String = log.lines().rev().take(15).collect::<Vec<_>>().into_iter().rev().collect::<Vec<_>>().join("\n");
                    errors.push(format!("shard {i}: exited with status {status} without a report\n{tail}"));
                }
            }
        }
    }

    let mut evaluations = 0;
    let mut distinct = 0u64;
    let mut samples = vec![];
    let mut per_sub = serde_json::Map::new();
    let mut classes_all: BTreeMap<String, u64> = BTreeMap::new();
    let mut excluded: BTreeMap<String, u64> = BTreeMap::new();
    let mut exhaustive_subs = vec![];
    let mut all_exhaustive = !merged.is_empty();
    let mut capped = false;
    for (name, m) in &merged {
        let d = sets.get(name).map(|s| s.len() as u64).unwrap_or(0);
        evaluations += m.evaluations;
        distinct += d;
        capped |= m.distinct_capped;
        for s in m.samples.iter().take(2) {
            samples.push(json!({ "sub": name, "case": s }));
        }
        for (k, v) in &m.classes {
            *classes_all.entry(format!("{name}/{k}")).or_default() += v;
        }
        for (k, v) in &m.excluded_known {
            *excluded.entry(k.clone()).or_default() += v;
        }
        if m.exhaustive {
            exhaustive_subs.push(name.clone());
        } else {
            all_exhaustive = false;
        }
        per_sub.insert(
            name.clone(),
            json!({
                "evaluations": m.evaluations,
                "work_units": m.units,
                "nontrivial": m.nontrivial_total,
                "distinct_nontrivial": d,
                "exhaustive": m.exhaustive,
                "wall_s": (m.wall_s * 100.0).round() / 100.0,
                "classes": m.classes,
            }),
        );
    }
    let wall = t0.elapsed().as_secs_f64();
    let evidence = json!({
        "property_id": prop.id,
        "tier": tier.as_str(),
        "seed": seed as i64,
        "level": "exploration",
        "coverage": {
            "evaluations": evaluations,
            "distinct_nontrivial": distinct,
            "distinct_count_is_lower_bound": capped,
            "rule": prop.rule,
            "samples": samples,
            "exhaustive": all_exhaustive,
            "exhaustive_subspaces": exhaustive_subs,
            "sub_checks": per_sub,
            "classes": classes_all,
            "excluded_known": excluded,
            "shards": shards,
        },
        "assumptions": prop.assumptions,
        "wall_s": (wall * 100.0).round() / 100.0,
        "violations": violations.len(),
    });
    let evdir = root.join("evidence");
    let _ = std::fs::create_dir_all(&evdir);
    let evpath = evdir.join(format!("{}.json", prop.id));
    if only.is_none() || std::env::var("VERIF_WRITE_EVIDENCE").is_ok() {
        std::fs::write(&evpath, serde_json::to_string_pretty(&evidence).unwrap()).unwrap();
    }
    let _ = std::fs::remove_dir_all(&tmp);

    println!(
        "{} tier={} seed={} shards={} evaluations={} distinct_nontrivial={} wall={:.1}s",
        prop.id, tier.as_str(), seed as i64, shards, evaluations, distinct, wall
    );
    for (name, m) in &merged {
        println!(
            "  {name}: evaluations={} nontrivial={} units={} classes={:?}",
            m.evaluations, m.nontrivial_total, m.units, m.classes
        );
    }
    // known findings: one line per listed finding of this property
    for k in known.iter().filter(|k| k.property == prop.id && k.status == "known") {
        let n = excluded.get(&k.key).copied().unwrap_or(0);
        println!("KNOWN-FINDING: property={} {} — {} (cases excluded this run: {})", prop.id, k.key, k.what, n);
    }
    if !violations.is_empty() {
        // one line per distinct failing class (shards often find the same one)
        let mut seen = HashSet::new();
        violations.retain(|v| seen.insert(hash_of(&(&v.sub, &v.key))));
        for v in &violations {
            println!("violation in {}: [{}] {}", v.sub, v.key, v.msg);
        }
        for v in &violations {
            println!("VIOLATION property={} replay={}", prop.id, v.replay);
        }
        std::process::exit(1)
    }
    if !errors.is_empty() || timed_out {
        for e in &errors {
            eprintln!("harness error: {e}");
        }
        std::process::exit(2)
    }
    if evaluations == 0 {
        eprintln!("harness error: no cases were evaluated");
        std::process::exit(2)
    }
    std::process::exit(0)
}

/// helper for strategies: current value of a strategy for ad-hoc sampling
pub fn sample_one<S: Strategy>(s: &S, seed: u64) -> S::Value {
    let mut bytes = [0u8; 32];
    bytes[..8].copy_from_slice(&seed.to_le_bytes());
    let mut runner = TestRunner::new_with_rng(
        Config::default(),
        TestRng::from_seed(RngAlgorithm::ChaCha, &bytes),
    );
    s.new_tree(&mut runner).unwrap().current()
}
