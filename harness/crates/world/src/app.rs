//! Application drivers: scripted writers/readers on both endpoints, with the payload
//! oracle (keyed position-dependent bytes) evaluated on every chunk read.

use crate::{
    net::now_us,
    scenario::{payload_key, ConnScript, DgramStep, ReaderScript, Side, StreamScript, WEnd, WStep, WriterScript},
};
use bytes::Bytes;
use s2n_quic::{
    connection::{Handle, StreamAcceptor},
    provider::io::testing::{spawn, time::delay},
    stream::{PeerStream, ReceiveStream, SendStream},
    Connection,
};
use std::{
    collections::HashMap,
    sync::{Arc, Mutex, MutexGuard},
    time::Duration,
};

#[derive(Clone, Debug, PartialEq, Eq)]
pub enum WriterEnd {
    /// finish() accepted (and, for `Finish`, the stream was fully acknowledged)
    Finished,
    Reset,
    Error(String),
}

#[derive(Clone, Debug, PartialEq, Eq)]
pub enum ReaderEnd {
    Clean,
    Stopped,
    Error(String),
}

#[derive(Clone, Debug, Default)]
pub struct DirLog {
    pub client: usize,
    pub script: usize,
    pub stream_id: u64,
    /// the side whose application writes this direction
    pub from: Option<Side>,
    pub writer_started_us: Option<u64>,
    /// bytes for which `send` returned Ok
    pub accepted: u64,
    /// bytes handed to `send` (>= accepted; a failed send may have taken part of its chunk)
    pub attempted: u64,
    pub finish_called_at: Option<u64>,
    pub writer_end: Option<(WriterEnd, u64)>,
    pub reader_started_us: Option<u64>,
    pub read: u64,
    /// (time, total bytes read so far) after every chunk
    pub read_log: Vec<(u64, u64)>,
    pub reader_end: Option<(ReaderEnd, u64)>,
    /// number of times a writer's send had to wait (was Pending at least once)
    pub expected: bool,
}

#[derive(Clone, Debug, Default)]
pub struct ConnLog {
    pub connect_started_us: u64,
    pub connect_end: Option<(Result<(), String>, u64)>,
    pub server_accepted_us: Option<u64>,
    pub opener_errors: Vec<(Side, String, u64)>,
    pub acceptor_end: Vec<(Side, String, u64)>,
    pub unknown_streams: Vec<(Side, u64)>,
}

#[derive(Default)]
pub struct AppState {
    /// key: (client, script, forward?)
    pub dirs: HashMap<(usize, usize, bool), DirLog>,
    pub conns: Vec<ConnLog>,
    /// immediate payload-oracle hits: (key, message)
    pub violations: Vec<(String, String)>,
    /// stream tasks expected (from the scripts) and finished
    pub expected_tasks: usize,
    pub finished_tasks: usize,
    pub handles: Vec<Option<Handle>>,
    /// endpoints kept alive until the end of the run
    pub keep: Vec<Box<dyn std::any::Any + Send>>,
    pub datagrams_sent: usize,
}

#[derive(Clone, Default)]
pub struct App(pub Arc<Mutex<AppState>>);

impl App {
    pub fn borrow(&self) -> MutexGuard<'_, AppState> {
        self.0.lock().unwrap()
    }
    pub fn borrow_mut(&self) -> MutexGuard<'_, AppState> {
        self.0.lock().unwrap()
    }
}

fn err_str<E: core::fmt::Debug>(e: E) -> String {
    let s = format!("{e:?}");
    s.chars().take(160).collect()
}

async fn sleep_us(us: u32) {
    if us > 0 {
        delay(Duration::from_micros(us as u64)).await;
    }
}

async fn run_writer(app: App, k: (usize, usize, bool), key: u64, script: WriterScript, mut stream: SendStream) {
    {
        let mut a = app.borrow_mut();
        let d = a.dirs.get_mut(&k).unwrap();
        d.writer_started_us = Some(now_us());
    }
    let mut off = 0u64;
    let mut result: Option<WriterEnd> = None;
    for step in &script.steps {
        match step {
            WStep::Send(n) => {
                let data = Bytes::from(vcore::gen::prf_vec(key, off, *n as usize));
                app.borrow_mut().dirs.get_mut(&k).unwrap().attempted += *n as u64;
                match stream.send(data).await {
                    Ok(()) => {
                        off += *n as u64;
                        app.borrow_mut().dirs.get_mut(&k).unwrap().accepted = off;
                    }
                    Err(e) => {
                        result = Some(WriterEnd::Error(err_str(e)));
                        break;
                    }
                }
            }
            WStep::Write(n) => {
                use futures::io::AsyncWriteExt;
                let data = vcore::gen::prf_vec(key, off, *n as usize);
                app.borrow_mut().dirs.get_mut(&k).unwrap().attempted += *n as u64;
                match stream.write_all(&data).await {
                    Ok(()) => {
                        off += *n as u64;
                        app.borrow_mut().dirs.get_mut(&k).unwrap().accepted = off;
                    }
                    Err(e) => {
                        result = Some(WriterEnd::Error(err_str(e)));
                        break;
                    }
                }
            }
            WStep::PauseUs(us) => sleep_us(*us).await,
            WStep::Flush => {
                if let Err(e) = stream.flush().await {
                    result = Some(WriterEnd::Error(err_str(e)));
                    break;
                }
            }
        }
    }
    if result.is_none() {
        result = Some(match script.end {
            WEnd::Finish => {
                app.borrow_mut().dirs.get_mut(&k).unwrap().finish_called_at = Some(off);
                match stream.close().await {
                    Ok(()) => WriterEnd::Finished,
                    Err(e) => WriterEnd::Error(err_str(e)),
                }
            }
            WEnd::FinishNoWait => {
                app.borrow_mut().dirs.get_mut(&k).unwrap().finish_called_at = Some(off);
                match stream.finish() {
                    Ok(()) => WriterEnd::Finished,
                    Err(e) => WriterEnd::Error(err_str(e)),
                }
            }
            WEnd::Reset(code) => match stream.reset(code.into()) {
                Ok(()) => WriterEnd::Reset,
                Err(e) => WriterEnd::Error(err_str(e)),
            },
        });
    }
    let mut a = app.borrow_mut();
    a.dirs.get_mut(&k).unwrap().writer_end = Some((result.unwrap(), now_us()));
    a.finished_tasks += 1;
    drop(a);
    drop(stream);
}

async fn run_reader(app: App, k: (usize, usize, bool), key: u64, script: ReaderScript, mut stream: ReceiveStream) {
    app.borrow_mut().dirs.get_mut(&k).unwrap().reader_started_us = Some(now_us());
    sleep_us(script.start_delay_us).await;
    let mut off = 0u64;
    let end;
    let check = |app: &App, off: u64, chunk: &[u8]| {
        if let Some(i) = vcore::gen::prf_mismatch(key, off, chunk) {
            let mut a = app.borrow_mut();
            let sid = a.dirs[&k].stream_id;
            a.violations.push((
                "payload:mismatch".into(),
                format!(
                    "client {} stream {} ({}): byte read at offset {} is 0x{:02x}, the writer wrote 0x{:02x} there (chunk of {} at {})",
                    k.0,
                    sid,
                    if k.2 { "initiator->acceptor" } else { "acceptor->initiator" },
                    off + i as u64,
                    chunk[i],
                    vcore::gen::prf_byte(key, off + i as u64),
                    chunk.len(),
                    off
                ),
            ));
        }
    };
    loop {
        if let Some((n, code)) = script.stop_after {
            if off >= n {
                let _ = stream.stop_sending(code.into());
                end = ReaderEnd::Stopped;
                break;
            }
        }
        if script.vectored > 0 {
            let mut chunks: Vec<Bytes> = vec![Bytes::new(); script.vectored as usize];
            match stream.receive_vectored(&mut chunks).await {
                Ok((count, is_open)) => {
                    for c in &chunks[..count] {
                        check(&app, off, c);
                        off += c.len() as u64;
                    }
                    {
                        let mut a = app.borrow_mut();
                        let d = a.dirs.get_mut(&k).unwrap();
                        d.read = off;
                        d.read_log.push((now_us(), off));
                    }
                    if !is_open {
                        end = ReaderEnd::Clean;
                        break;
                    }
                }
                Err(e) => {
                    end = ReaderEnd::Error(err_str(e));
                    break;
                }
            }
        } else {
            match stream.receive().await {
                Ok(Some(chunk)) => {
                    check(&app, off, &chunk);
                    if chunk.is_empty() {
                        app.borrow_mut().violations.push(("payload:empty-chunk".into(), format!("client {} stream {:?}: receive() returned an empty chunk at offset {off}", k.0, k)));
                    }
                    off += chunk.len() as u64;
                    {
                        let mut a = app.borrow_mut();
                        let d = a.dirs.get_mut(&k).unwrap();
                        d.read = off;
                        d.read_log.push((now_us(), off));
                    }
                }
                Ok(None) => {
                    end = ReaderEnd::Clean;
                    break;
                }
                Err(e) => {
                    end = ReaderEnd::Error(err_str(e));
                    break;
                }
            }
        }
        sleep_us(script.pause_us).await;
    }
    let mut a = app.borrow_mut();
    a.dirs.get_mut(&k).unwrap().reader_end = Some((end, now_us()));
    a.finished_tasks += 1;
}

/// registers the expected tasks of a connection script
pub fn register(app: &App, client: usize, script: &ConnScript) {
    let ids = script.ids();
    let mut a = app.borrow_mut();
    for (i, s) in script.streams.iter().enumerate() {
        let acceptor = match s.initiator {
            Side::Client => Side::Server,
            Side::Server => Side::Client,
        };
        a.dirs.insert(
            (client, i, true),
            DirLog { client, script: i, stream_id: ids[i], from: Some(s.initiator), expected: true, ..Default::default() },
        );
        a.expected_tasks += 2;
        if s.bidi {
            a.dirs.insert(
                (client, i, false),
                DirLog { client, script: i, stream_id: ids[i], from: Some(acceptor), expected: true, ..Default::default() },
            );
            a.expected_tasks += 2;
        }
    }
}

/// Runs one side of a connection: opens the streams this side initiates (in script order,
/// so ids are predictable) and accepts the others.
pub fn drive_connection(app: App, client: usize, side: Side, script: ConnScript, connection: Connection) {
    let (handle, acceptor) = connection.split();
    if side == Side::Client {
        let mut a = app.borrow_mut();
        while a.handles.len() <= client {
            a.handles.push(None);
        }
        a.handles[client] = Some(handle.clone());
    }
    let ids = script.ids();
    // scripted close by the server application
    if let (Side::Server, Some((at_us, code))) = (side, script.server_close) {
        let handle = handle.clone();
        spawn(async move {
            sleep_us(at_us).await;
            handle.close(code.into());
        });
    }
    // unreliable datagrams
    {
        let mut steps: Vec<DgramStep> = script.datagrams.iter().copied().filter(|d| d.side == side).collect();
        steps.sort_by_key(|d| d.at_us);
        if !steps.is_empty() {
            let handle = handle.clone();
            let app = app.clone();
            spawn(async move {
                let mut at = 0u32;
                for (k, d) in steps.iter().enumerate() {
                    if d.at_us > at {
                        sleep_us(d.at_us - at).await;
                        at = d.at_us;
                    }
                    let data = bytes::Bytes::from(vcore::gen::prf_vec(0xd6 ^ k as u64, 0, d.len as usize));
                    // (an over-long datagram or a closed connection is refused by the sender: not this harness's concern)
                    let sent = handle.datagram_mut(|s: &mut s2n_quic::provider::datagram::default::Sender| s.send_datagram(data).is_ok());
                    if matches!(sent, Ok(true)) {
                        app.borrow_mut().datagrams_sent += 1;
                    }
                }
            });
        }
    }
    // opener
    {
        let app = app.clone();
        let script = script.clone();
        let ids = ids.clone();
        let mut handle = handle.clone();
        spawn(async move {
            for (i, s) in script.streams.iter().enumerate() {
                if s.initiator != side {
                    continue;
                }
                if s.bidi {
                    match handle.open_bidirectional_stream().await {
                        Ok(stream) => {
                            let got = stream.id();
                            if got != ids[i] {
                                app.borrow_mut().violations.push(("stream-id:unexpected".into(), format!("client {client} {side:?}: {}-th opened bidirectional stream has id {got}, expected {}", i, ids[i])));
                            }
                            let (rx, tx) = stream.split();
                            start_pair(&app, client, i, s, side, Some(tx), Some(rx));
                        }
                        Err(e) => {
                            let mut a = app.borrow_mut();
                            a.conns[client].opener_errors.push((side, err_str(e), now_us()));
                            skip_remaining(&mut a, client, &script, side, i, true);
                            return;
                        }
                    }
                } else {
                    match handle.open_send_stream().await {
                        Ok(tx) => {
                            let got = tx.id();
                            if got != ids[i] {
                                app.borrow_mut().violations.push(("stream-id:unexpected".into(), format!("client {client} {side:?}: {}-th opened unidirectional stream has id {got}, expected {}", i, ids[i])));
                            }
                            start_pair(&app, client, i, s, side, Some(tx), None);
                        }
                        Err(e) => {
                            let mut a = app.borrow_mut();
                            a.conns[client].opener_errors.push((side, err_str(e), now_us()));
                            skip_remaining(&mut a, client, &script, side, i, true);
                            return;
                        }
                    }
                }
            }
        });
    }
    // acceptor
    {
        let app = app.clone();
        let mut acceptor: StreamAcceptor = acceptor;
        spawn(async move {
            let mut seen = vec![false; script.streams.len()];
            let end = loop {
                match acceptor.accept().await {
                    Ok(Some(stream)) => {
                        let id = stream.id();
                        let Some(i) = ids.iter().position(|x| *x == id) else {
                            app.borrow_mut().conns[client].unknown_streams.push((side, id));
                            continue;
                        };
                        let s = &script.streams[i];
                        if s.initiator == side || seen[i] {
                            app.borrow_mut().conns[client].unknown_streams.push((side, id));
                            continue;
                        }
                        seen[i] = true;
                        match stream {
                            PeerStream::Bidirectional(stream) => {
                                let (rx, tx) = stream.split();
                                start_pair(&app, client, i, s, side, Some(tx), Some(rx));
                            }
                            PeerStream::Receive(rx) => {
                                start_pair(&app, client, i, s, side, None, Some(rx));
                            }
                        }
                    }
                    Ok(None) => break "closed".to_string(),
                    Err(e) => break err_str(e),
                }
            };
            let mut a = app.borrow_mut();
            a.conns[client].acceptor_end.push((side, end, now_us()));
            // streams of the peer that never arrived will never start on this side
            for (i, s) in script.streams.iter().enumerate() {
                if s.initiator != side && !seen[i] {
                    a.finished_tasks += if s.bidi { 2 } else { 1 };
                }
            }
        });
    }
}

fn skip_remaining(a: &mut AppState, _client: usize, script: &ConnScript, side: Side, from: usize, _opener: bool) {
    for (i, s) in script.streams.iter().enumerate() {
        if i >= from && s.initiator == side {
            a.finished_tasks += if s.bidi { 2 } else { 1 };
        }
    }
}

fn start_pair(app: &App, client: usize, i: usize, s: &StreamScript, side: Side, tx: Option<SendStream>, rx: Option<ReceiveStream>) {
    let id = app.borrow().dirs[&(client, i, true)].stream_id;
    let is_initiator = s.initiator == side;
    if let Some(tx) = tx {
        // the initiator writes the forward direction, the acceptor the reverse one
        let (k, script) = if is_initiator {
            ((client, i, true), Some(s.fwd.clone()))
        } else {
            ((client, i, false), s.rev.clone())
        };
        if let Some(script) = script {
            let key = payload_key(client, id, side);
            spawn(run_writer(app.clone(), k, key, script, tx));
        }
    }
    if let Some(rx) = rx {
        let (k, script, from) = if is_initiator {
            ((client, i, false), s.rev_reader.clone(), other(side))
        } else {
            ((client, i, true), Some(s.fwd_reader.clone()), other(side))
        };
        if let Some(script) = script {
            let key = payload_key(client, id, from);
            spawn(run_reader(app.clone(), k, key, script, rx));
        }
    }
}

fn other(s: Side) -> Side {
    match s {
        Side::Client => Side::Server,
        Side::Server => Side::Client,
    }
}
