//! Evil peer (C04): an otherwise honest endpoint whose packet interceptor replaces the
//! cleartext payload of one chosen packet by generated adversarial frames.

use crate::{
    net::now_us,
    rec::{Ev, Trace},
    scenario::*,
    wire::WFrame,
};
use s2n_codec::encoder::scatter;
use s2n_quic_core::{
    event::api::Subject,
    packet::{
        interceptor::{Interceptor, Packet},
        number::PacketNumberSpace,
    },
};
use std::sync::{Arc, Mutex};

#[derive(Clone, Debug, Default)]
pub struct Injection {
    pub done: Option<InjectionInfo>,
}

#[derive(Clone, Debug)]
pub struct InjectionInfo {
    pub t_us: u64,
    pub space_app: bool,
    pub pn: u64,
    /// transport error codes RFC 9000 permits for this input (empty = must not close)
    pub permitted: Vec<u64>,
    pub what: String,
    /// short stable name of the input variant (part of the failure key)
    pub tag: String,
    /// stream the offending frame would create at the victim, when the frame alone is the offence
    pub offending_stream: Option<u64>,
}

pub type EvilShared = Arc<Mutex<Injection>>;

pub struct Evil {
    pub cfg: EvilCfg,
    /// 0 = server, 1 = client 0
    pub ep: usize,
    pub victim: EndpointCfg,
    pub trace: Trace,
    pub shared: EvilShared,
    seen: u32,
}

impl Evil {
    pub fn new(cfg: EvilCfg, ep: usize, victim: EndpointCfg, trace: Trace, shared: EvilShared) -> Self {
        Evil { cfg, ep, victim, trace, shared, seen: 0 }
    }
}

/// stable slug of a description: letters only, numbers dropped
fn slug(what: &str) -> String {
    let mut out = String::new();
    let mut last_dash = true;
    for ch in what.chars() {
        if ch.is_ascii_alphabetic() || ch == '_' {
            out.push(ch.to_ascii_lowercase());
            last_dash = false;
        } else if !last_dash {
            out.push('-');
            last_dash = true;
        }
    }
    let out = out.trim_matches('-').to_string();
    out.chars().take(70).collect()
}

pub fn varint(v: u64, out: &mut Vec<u8>) {
    if v < 1 << 6 {
        out.push(v as u8);
    } else if v < 1 << 14 {
        out.extend_from_slice(&((v as u16) | 0x4000).to_be_bytes());
    } else if v < 1 << 30 {
        out.extend_from_slice(&((v as u32) | 0x8000_0000).to_be_bytes());
    } else {
        out.extend_from_slice(&(v | 0xc000_0000_0000_0000).to_be_bytes());
    }
}

fn stream_frame(id: u64, off: u64, len: u64, fin: bool, out: &mut Vec<u8>) {
    out.push(0x08 | 0x04 | 0x02 | fin as u8);
    varint(id, out);
    varint(off, out);
    varint(len, out);
    for i in 0..len {
        out.push(0xE0 ^ ((off + i) as u8));
    }
}

const DEFAULT_WINDOW: u64 = 3_750_000;
const FLOW: u64 = 0x3;
const STREAM_LIMIT: u64 = 0x4;
const STREAM_STATE: u64 = 0x5;
const FINAL_SIZE: u64 = 0x6;
const FRAME_ENC: u64 = 0x7;
const PROTO: u64 = 0xa;

impl Evil {
    /// what the victim has advertised so far (its own view): (max_data, max_streams_bidi, max_streams_uni, per-stream)
    fn advertised(&self) -> (u64, u64, u64, std::collections::HashMap<u64, u64>) {
        let l = &self.victim.limits;
        let mut max_data = l.data_window.unwrap_or(DEFAULT_WINDOW);
        let mut bidi = l.max_open_remote_bidi.unwrap_or(100);
        let mut uni = l.max_open_remote_uni.unwrap_or(100);
        let mut per = std::collections::HashMap::new();
        let victim_ep_is_server = self.ep != 0;
        let t = self.trace.lock().unwrap();
        for r in &t.recs {
            if (r.ep == 0) != victim_ep_is_server {
                continue;
            }
            if let Ev::Tx { frames: Ok(fr), .. } = &r.ev {
                for f in fr {
                    match f {
                        WFrame::MaxData(v) => max_data = max_data.max(*v),
                        WFrame::MaxStreams { bidi: true, max } => bidi = bidi.max(*max),
                        WFrame::MaxStreams { bidi: false, max } => uni = uni.max(*max),
                        WFrame::MaxStreamData { id, max } => {
                            let e = per.entry(*id).or_insert(0);
                            *e = (*e).max(*max);
                        }
                        _ => {}
                    }
                }
            }
        }
        (max_data, bidi, uni, per)
    }

    /// builds the frames of the configured class against the victim's current limits
    /// the stream for which the evil side has received a STOP_SENDING (lowest id), provided the victim has not been sent a
    /// RESET_STREAM for it yet
    fn stopped_stream(&self) -> Option<u64> {
        let evil_is_client = self.ep != 0;
        let t = self.trace.lock().unwrap();
        let mut stopped: Vec<u64> = vec![];
        let mut reset: Vec<u64> = vec![];
        for r in &t.recs {
            if (r.ep == 0) == evil_is_client {
                continue;
            }
            match &r.ev {
                Ev::Rx { frames: Ok(fr), .. } => stopped.extend(fr.iter().filter_map(|f| if let WFrame::StopSending { id, .. } = f { Some(*id) } else { None })),
                Ev::Tx { frames: Ok(fr), .. } => reset.extend(fr.iter().filter_map(|f| if let WFrame::ResetStream { id, .. } = f { Some(*id) } else { None })),
                _ => {}
            }
        }
        stopped.sort_unstable();
        stopped.into_iter().find(|id| !reset.contains(id))
    }

    fn build(&self) -> (Vec<u8>, Vec<u64>, String, Option<u64>) {
        let evil_is_client = self.ep != 0;
        let l = &self.victim.limits;
        let (max_data, max_bidi, max_uni, per) = self.advertised();
        // connection credit the evil side has already used up (its own STREAM frames so far)
        let mut used_streams: std::collections::HashSet<u64> = Default::default();
        let used: u64 = {
            let t = self.trace.lock().unwrap();
            let mut ends: std::collections::HashMap<u64, u64> = std::collections::HashMap::new();
            for r in &t.recs {
                if (r.ep == 0) == evil_is_client {
                    continue;
                }
                if let Ev::Tx { frames: Ok(fr), .. } = &r.ev {
                    for f in fr {
                        if let WFrame::Stream { id, off, len, .. } = f {
                            let e = ends.entry(*id).or_insert(0);
                            *e = (*e).max(off + len);
                        }
                    }
                }
            }
            used_streams.extend(ends.keys().copied());
            ends.values().sum()
        };
        let room = max_data.saturating_sub(used);
        // ids the evil side may initiate: client 0/2, server 1/3 (+4k)
        let my_bidi = |k: u64| 4 * k + if evil_is_client { 0 } else { 1 };
        let my_uni = |k: u64| 4 * k + if evil_is_client { 2 } else { 3 };
        let their_bidi = |k: u64| 4 * k + if evil_is_client { 1 } else { 0 };
        let their_uni = |k: u64| 4 * k + if evil_is_client { 3 } else { 2 };
        let win_bidi = l.bidi_remote_window.unwrap_or(DEFAULT_WINDOW);
        let win_uni = l.uni_window.unwrap_or(DEFAULT_WINDOW);
        let limit_of = |id: u64, initial: u64| per.get(&id).copied().unwrap_or(0).max(initial);
        // a fresh stream index that is inside the victim's stream-count limit (falls back to the last allowed one)
        let fresh_bidi = 9u64.min(max_bidi.saturating_sub(1));
        let fresh_uni = 9u64.min(max_uni.saturating_sub(1));
        // classes that need a stream nobody has used: only when the victim's stream-count limits leave room for one
        let needs_fresh = matches!(self.cfg.class, EvilClass::BeyondStreamLimit | EvilClass::BeyondConnLimit | EvilClass::FinalSize) || (matches!(self.cfg.class, EvilClass::Control) && matches!(self.cfg.variant % 6, 0 | 4))
            || (matches!(self.cfg.class, EvilClass::BadValue) && self.cfg.variant % 7 == 6);
        if needs_fresh && (max_bidi < 11 || max_uni < 11) {
            return (vec![], vec![], String::new(), None);
        }
        let mut out = vec![];
        let v = self.cfg.variant;
        match self.cfg.class {
            EvilClass::BeyondStreamLimit => {
                let (id, initial) = if v & 1 == 0 { (my_bidi(fresh_bidi), win_bidi) } else { (my_uni(fresh_uni), win_uni) };
                let limit = limit_of(id, initial);
                // "far": by more than a whole window, so that credit earned by consumption but not yet advertised cannot cover it
                let by = if v & 2 == 0 { 1 } else { initial + 1 + (v as u64) * 7919 };
                // last byte lands `by` beyond the limit
                let len = 3u64.min(limit + by);
                stream_frame(id, limit + by - len, len, v & 4 != 0, &mut out);
                let mut codes = vec![FLOW, PROTO];
                if (v & 1 == 0 && max_bidi == 0) || (v & 1 == 1 && max_uni == 0) {
                    codes.push(STREAM_LIMIT);
                }
                (out, codes, format!("stream-limit-{}{}|STREAM on stream {id} ending {by} beyond its limit {limit}", if by == 1 { "plus-one" } else { "far" }, if used_streams.contains(&id) { "-on-used-stream" } else { "" }), Some(id))
            }
            EvilClass::BeyondConnLimit => {
                // one frame on a fresh stream, inside that stream's own limit where possible, whose end lifts the
                // connection-wide sum of stream lengths to MAX_DATA + by
                let (id, initial) = if v & 1 == 0 { (my_uni(fresh_uni), win_uni) } else { (my_bidi(fresh_bidi + 1).min(my_bidi(max_bidi.saturating_sub(1))), win_bidi) };
                // "just above": what was advertised is exceeded by 1-3 bytes; "far above": by more than a whole window, so that
                // credit the victim has earned by consuming data but not advertised yet cannot cover it
                let far = v & 2 != 0;
                let by = if far { l.data_window.unwrap_or(DEFAULT_WINDOW) + 1 + (v as u64 >> 2) } else { 1 + (v as u64 >> 2) % 3 };
                let end = room + by;
                let len = 2u64.min(end);
                stream_frame(id, end - len, len, false, &mut out);
                let mut codes = vec![FLOW, PROTO];
                if max_uni == 0 || max_bidi == 0 {
                    codes.push(STREAM_LIMIT);
                }
                let _ = limit_of(id, initial);
                (out, codes, format!("max-data-{}|STREAM on stream {id} that lifts the sum of stream lengths {} the advertised MAX_DATA {max_data} (by {by})", if far { "far-above" } else { "just-above" }, if far { "far above" } else { "just above" }), None)
            }
            EvilClass::StreamIdBeyondLimit => {
                let by = if v & 2 == 0 { 0 } else { 1 + (v as u64) * 31 };
                let (id, lim) = if v & 1 == 0 { (my_bidi(max_bidi + by), max_bidi) } else { (my_uni(max_uni + by), max_uni) };
                match v % 3 {
                    0 => stream_frame(id, 0, 1, false, &mut out),
                    1 => {
                        out.push(0x04);
                        varint(id, &mut out);
                        varint(7, &mut out);
                        varint(0, &mut out);
                    }
                    _ => stream_frame(id, 0, 0, true, &mut out),
                }
                (out, vec![STREAM_LIMIT, PROTO], format!("stream-id-{}-{}|frame for peer-initiated stream {id} (index {}) with stream limit {lim}", if by == 0 { "at-limit" } else { "far" }, ["stream", "reset", "empty-fin"][(v % 3) as usize], id >> 2), Some(id))
            }
            EvilClass::FinalSize => {
                let id = if v & 1 == 0 { my_bidi(fresh_bidi) } else { my_uni(fresh_uni) };
                let reset = |id: u64, fin: u64, out: &mut Vec<u8>| {
                    out.push(0x04);
                    varint(id, out);
                    varint(3, out);
                    varint(fin, out);
                };
                match (v >> 1) % 8 {
                    0 => {
                        stream_frame(id, 0, 10, true, &mut out);
                        stream_frame(id, 10, 1, false, &mut out);
                    }
                    // the final size is known from a FIN while an earlier range is still missing
                    4 => {
                        stream_frame(id, 0, 10, false, &mut out);
                        stream_frame(id, 20, 10, true, &mut out);
                        reset(id, 15, &mut out);
                    }
                    5 => {
                        stream_frame(id, 0, 10, false, &mut out);
                        stream_frame(id, 20, 10, true, &mut out);
                        reset(id, 31, &mut out);
                    }
                    6 => {
                        stream_frame(id, 20, 10, true, &mut out);
                        stream_frame(id, 30, 1, false, &mut out);
                    }
                    7 => {
                        stream_frame(id, 20, 10, false, &mut out);
                        stream_frame(id, 0, 5, true, &mut out);
                    }
                    1 => {
                        stream_frame(id, 0, 10, true, &mut out);
                        out.push(0x04);
                        varint(id, &mut out);
                        varint(3, &mut out);
                        varint(11, &mut out);
                    }
                    2 => {
                        stream_frame(id, 0, 10, false, &mut out);
                        stream_frame(id, 0, 5, true, &mut out);
                    }
                    _ => {
                        stream_frame(id, 0, 10, true, &mut out);
                        stream_frame(id, 0, 9, true, &mut out);
                    }
                }
                // the few bytes used here may also run into an exhausted connection window or a tiny stream window
                let mut codes = vec![FINAL_SIZE, PROTO];
                let initial = if v & 1 == 0 { win_bidi } else { win_uni };
                if room < 48 || limit_of(id, initial) < 48 {
                    codes.push(FLOW);
                }
                if (v & 1 == 0 && max_bidi == 0) || (v & 1 == 1 && max_uni == 0) {
                    codes.push(STREAM_LIMIT);
                }
                (out, codes, format!("final-size-{}|conflicting final size on stream {id} (variant {})", (v >> 1) % 8, (v >> 1) % 8), None)
            }
            EvilClass::AfterStopSending => {
                // the stream the victim asked to stop (STOP_SENDING received by the evil side)
                let Some(id) = self.stopped_stream() else { return (vec![], vec![], String::new(), None) };
                let initial = if id & 2 == 0 { win_bidi } else { win_uni };
                let limit = limit_of(id, initial);
                // far beyond: more than a whole window above anything the victim can have granted without advertising it yet
                let fin = limit + initial + l.data_window.unwrap_or(DEFAULT_WINDOW) + 1 + (v as u64) * 7919;
                out.push(0x04);
                varint(id, &mut out);
                varint(3, &mut out);
                varint(fin, &mut out);
                (out, vec![FLOW, FINAL_SIZE, PROTO], format!("reset-far-beyond-limit|RESET_STREAM for stream {id} with final size {fin}, far beyond its limit {limit}, after the victim's application called stop_sending on the incomplete stream"), None)
            }
            EvilClass::WrongDirection => {
                let what;
                match v % 6 {
                    0 => {
                        let id = their_uni(0);
                        stream_frame(id, 0, 1, false, &mut out);
                        what = format!("stream-on-send-only|STREAM on the victim's own unidirectional stream {id}");
                    }
                    1 => {
                        let id = my_uni(0.min(fresh_uni));
                        out.push(0x11);
                        varint(id, &mut out);
                        varint(100_000, &mut out);
                        what = format!("max-stream-data-on-receive-only|MAX_STREAM_DATA for the receive-only stream {id}");
                    }
                    2 => {
                        let id = my_uni(0.min(fresh_uni));
                        out.push(0x05);
                        varint(id, &mut out);
                        varint(1, &mut out);
                        what = format!("stop-sending-on-receive-only|STOP_SENDING for the receive-only stream {id}");
                    }
                    3 => {
                        let id = their_uni(0);
                        out.push(0x04);
                        varint(id, &mut out);
                        varint(1, &mut out);
                        varint(0, &mut out);
                        what = format!("reset-stream-on-send-only|RESET_STREAM for the victim's own unidirectional stream {id}");
                    }
                    4 => {
                        let id = their_bidi(60);
                        stream_frame(id, 0, 1, false, &mut out);
                        what = format!("stream-on-unopened-local|STREAM on stream {id}, which only the victim may open and has not opened");
                    }
                    _ => {
                        let id = their_bidi(60);
                        out.push(0x11);
                        varint(id, &mut out);
                        varint(100_000, &mut out);
                        what = format!("max-stream-data-on-unopened-local|MAX_STREAM_DATA for stream {id}, which only the victim may open and has not opened");
                    }
                }
                (out, vec![STREAM_STATE, PROTO], what, None)
            }
            EvilClass::ForbiddenInSpace => {
                let what;
                match v % 5 {
                    0 => {
                        stream_frame(my_bidi(0), 0, 1, false, &mut out);
                        what = "STREAM frame";
                    }
                    1 => {
                        out.push(0x10);
                        varint(1 << 20, &mut out);
                        what = "MAX_DATA frame";
                    }
                    2 => {
                        out.push(0x1e);
                        what = "HANDSHAKE_DONE frame";
                    }
                    3 => {
                        out.push(0x19);
                        varint(0, &mut out);
                        what = "RETIRE_CONNECTION_ID frame";
                    }
                    _ => {
                        out.push(0x12);
                        varint(5, &mut out);
                        what = "MAX_STREAMS frame";
                    }
                }
                (out, vec![PROTO], format!("{}-in-handshake|{what} inside a Handshake packet", what.split(' ').next().unwrap_or("").to_ascii_lowercase()), None)
            }
            EvilClass::BadValue => {
                let what;
                let codes;
                match v % 7 {
                    0 => {
                        out.push(if v & 8 == 0 { 0x12 } else { 0x13 });
                        varint((1 << 60) + 1 + (v as u64 >> 4), &mut out);
                        what = "max-streams-above-2-60|MAX_STREAMS above 2^60".to_string();
                        codes = vec![FRAME_ENC, PROTO];
                    }
                    1 => {
                        out.push(if v & 8 == 0 { 0x16 } else { 0x17 });
                        varint((1 << 60) + 1, &mut out);
                        what = "streams-blocked-above-2-60|STREAMS_BLOCKED above 2^60".to_string();
                        codes = vec![FRAME_ENC, STREAM_LIMIT, PROTO];
                    }
                    2 => {
                        out.push(0x18);
                        varint(5, &mut out);
                        varint(6, &mut out);
                        out.push(8);
                        out.extend_from_slice(&[7u8; 8]);
                        out.extend_from_slice(&[9u8; 16]);
                        what = "new-cid-retire-prior-to-above-seq|NEW_CONNECTION_ID with retire_prior_to > sequence number".to_string();
                        codes = vec![FRAME_ENC, PROTO];
                    }
                    3 => {
                        out.push(0x18);
                        varint(5, &mut out);
                        varint(0, &mut out);
                        let n = if v & 8 == 0 { 0u8 } else { 21 };
                        out.push(n);
                        out.extend(std::iter::repeat(7u8).take(n as usize));
                        out.extend_from_slice(&[9u8; 16]);
                        what = format!("new-cid-length-{n}|NEW_CONNECTION_ID with connection id length {n}");
                        codes = vec![FRAME_ENC, PROTO];
                    }
                    4 => {
                        out.push(0x07);
                        if evil_is_client {
                            varint(4, &mut out);
                            out.extend_from_slice(&[1, 2, 3, 4]);
                            what = "new-token-from-client|NEW_TOKEN sent by a client".to_string();
                            codes = vec![PROTO];
                        } else {
                            varint(0, &mut out);
                            what = "new-token-empty|empty NEW_TOKEN".to_string();
                            codes = vec![FRAME_ENC, PROTO];
                        }
                    }
                    5 => {
                        if evil_is_client {
                            out.push(0x1e);
                            what = "handshake-done-from-client|HANDSHAKE_DONE sent by a client".to_string();
                            codes = vec![PROTO];
                        } else {
                            out.push(0x07);
                            varint(0, &mut out);
                            what = "new-token-empty|empty NEW_TOKEN".to_string();
                            codes = vec![FRAME_ENC, PROTO];
                        }
                    }
                    _ => {
                        let id = my_bidi(fresh_bidi);
                        out.push(0x08 | 0x04 | 0x02);
                        varint(id, &mut out);
                        varint((1 << 62) - 2, &mut out);
                        varint(3, &mut out);
                        out.extend_from_slice(&[1, 2, 3]);
                        what = format!("stream-offset-overflow|STREAM on stream {id} with offset + length above 2^62-1");
                        codes = vec![FRAME_ENC, FLOW, PROTO];
                    }
                }
                (out, codes, what, None)
            }
            EvilClass::Control => {
                let what;
                match v % 6 {
                    0 => {
                        let id = my_bidi(fresh_bidi);
                        if max_bidi > 0 && limit_of(id, win_bidi) >= 8 && room >= 16 {
                            stream_frame(id, 0, 5, false, &mut out);
                            stream_frame(id, 0, 5, false, &mut out);
                            stream_frame(id, 3, 5, false, &mut out);
                        } else {
                            out.push(0x01);
                        }
                        what = "ctl-dup-overlap|duplicate and overlapping (consistent) STREAM data within all limits";
                    }
                    1 => {
                        out.push(0x10);
                        varint(1, &mut out);
                        what = "ctl-max-data-decrease|MAX_DATA lower than before (must be ignored)";
                    }
                    2 => {
                        out.push(0x14);
                        varint(12345, &mut out);
                        out.push(0x16);
                        varint(1 << 60, &mut out);
                        what = "ctl-blocked-frames|DATA_BLOCKED and STREAMS_BLOCKED(2^60)";
                    }
                    3 => {
                        out.push(0x12);
                        varint(1 << 60, &mut out);
                        what = "ctl-max-streams-2-60|MAX_STREAMS = 2^60 (largest legal value)";
                    }
                    4 => {
                        let id = my_uni(fresh_uni);
                        if max_uni > 0 {
                            out.push(0x04);
                            varint(id, &mut out);
                            varint(9, &mut out);
                            varint(0, &mut out);
                        } else {
                            out.push(0x01);
                        }
                        what = "ctl-reset-first|RESET_STREAM(final size 0) as the first frame of a stream";
                    }
                    _ => {
                        out.push(0x01);
                        out.push(0x1a);
                        out.extend_from_slice(&[1, 2, 3, 4, 5, 6, 7, 8]);
                        what = "ctl-ping-path-challenge|PING and PATH_CHALLENGE";
                    }
                }
                (out, vec![], what.to_string(), None)
            }
        }
    }
}

impl Interceptor for Evil {
    fn intercept_tx_payload(&mut self, _subject: &Subject, packet: &Packet, payload: &mut scatter::Buffer) {
        if self.shared.lock().unwrap().done.is_some() {
            return;
        }
        let want_app = !matches!(self.cfg.class, EvilClass::ForbiddenInSpace);
        let space = packet.number.space();
        let is_target = if want_app { space == PacketNumberSpace::ApplicationData } else { space == PacketNumberSpace::Handshake };
        if !is_target {
            return;
        }
        // only after the handshake is confirmed on both sides (application space)
        if want_app {
            let confirmed = self.trace.lock().unwrap().recs.iter().filter(|r| matches!(r.ev, Ev::HandshakeConfirmed)).count() >= 2;
            if !confirmed {
                return;
            }
        }
        self.seen += 1;
        if matches!(self.cfg.class, EvilClass::AfterStopSending) {
            // the first packet after the victim's STOP_SENDING arrived (it would carry the honest RESET_STREAM)
            if self.stopped_stream().is_none() {
                return;
            }
        } else if self.seen <= self.cfg.after as u32 {
            return;
        }
        let (frames, permitted, what, offending_stream) = self.build();
        let what: String = what;
        let buf = payload.flatten();
        let slice = buf.as_mut_slice();
        if slice.len() < frames.len() || frames.is_empty() {
            return;
        }
        slice[..frames.len()].copy_from_slice(&frames);
        for b in &mut slice[frames.len()..] {
            *b = 0;
        }
        self.shared.lock().unwrap().done = Some(InjectionInfo {
            t_us: now_us(),
            space_app: want_app,
            pn: packet.number.as_u64(),
            permitted,
            tag: what.split('|').next().unwrap_or("").to_string(),
            what: what.split('|').nth(1).unwrap_or(&what).to_string(),
            offending_stream,
        });
    }
}
