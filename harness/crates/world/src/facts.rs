//! Facts derived from a run, shared by the monitors (non-triviality rules, class histogram).

use crate::{
    net::Fate,
    rec::{Ev, Space},
    run::Outcome,
    wire::WFrame,
};
use std::collections::{BTreeMap, HashMap};

#[derive(Default, Debug, Clone)]
pub struct Facts {
    /// stream byte ranges that were put on the wire more than once
    pub stream_retransmissions: usize,
    /// packets processed out of order (a lower pn after a higher one) in the app space
    pub reordered_rx: usize,
    pub duplicate_rx_datagrams: usize,
    /// largest number of bytes carried on one stream direction
    pub max_stream_bytes: u64,
    pub data_blocked: usize,
    pub stream_data_blocked: usize,
    pub streams_blocked: usize,
    pub max_data_frames: usize,
    pub max_stream_data_frames: usize,
    pub max_streams_frames: usize,
    pub resets: usize,
    pub stop_sendings: usize,
    pub dropped: usize,
    pub corrupted: usize,
    pub truncated: usize,
    pub mtu_dropped: usize,
    pub duplicated: usize,
    pub delayed: usize,
    pub pto_probes: usize,
    pub packets_lost: usize,
    pub handshakes_completed: usize,
    pub closed: usize,
    pub wire_errors: Vec<String>,
}

pub fn facts(out: &Outcome) -> Facts {
    let mut f = Facts::default();
    // (ep, conn, stream) -> sorted list of sent ranges
    let mut sent: HashMap<(usize, u64, u64), BTreeMap<u64, u64>> = HashMap::new();
    let mut max_rx_pn: HashMap<(usize, u64), u64> = HashMap::new();
    let mut stream_bytes: HashMap<(usize, u64, u64), u64> = HashMap::new();
    for r in &out.recs {
        match &r.ev {
            Ev::Tx { frames, space, .. } => match frames {
                Ok(frames) => {
                    for fr in frames {
                        match fr {
                            WFrame::Stream { id, off, len, .. } => {
                                let ranges = sent.entry((r.ep, r.conn, *id)).or_default();
                                let (s, e) = (*off, off + len);
                                if *len > 0 && ranges.range(..e).next_back().map(|(a, b)| *a < e && s < *b).unwrap_or(false) {
                                    f.stream_retransmissions += 1;
                                }
                                let cur = ranges.entry(s).or_insert(e);
                                *cur = (*cur).max(e);
                                let m = stream_bytes.entry((r.ep, r.conn, *id)).or_default();
                                *m = (*m).max(e);
                            }
                            WFrame::DataBlocked(_) => f.data_blocked += 1,
                            WFrame::StreamDataBlocked { .. } => f.stream_data_blocked += 1,
                            WFrame::StreamsBlocked { .. } => f.streams_blocked += 1,
                            WFrame::MaxData(_) => f.max_data_frames += 1,
                            WFrame::MaxStreamData { .. } => f.max_stream_data_frames += 1,
                            WFrame::MaxStreams { .. } => f.max_streams_frames += 1,
                            WFrame::ResetStream { .. } => f.resets += 1,
                            WFrame::StopSending { .. } => f.stop_sendings += 1,
                            WFrame::Unknown(t) => f.wire_errors.push(format!("ep {} sent unknown frame type {t:#x} in {space:?}", r.ep)),
                            _ => {}
                        }
                    }
                }
                Err(e) => f.wire_errors.push(format!("ep {} sent an undecodable payload: {e:?}", r.ep)),
            },
            Ev::Rx { space: Space::App, pn, .. } => {
                let m = max_rx_pn.entry((r.ep, r.conn)).or_insert(0);
                if *pn < *m {
                    f.reordered_rx += 1;
                }
                *m = (*m).max(*pn);
            }
            Ev::PacketSent { mode: crate::rec::TxMode::LossRecoveryProbing, .. } => f.pto_probes += 1,
            Ev::PacketLost { .. } => f.packets_lost += 1,
            Ev::HandshakeComplete => f.handshakes_completed += 1,
            Ev::Closed(_) => f.closed += 1,
            _ => {}
        }
    }
    f.max_stream_bytes = stream_bytes.values().copied().max().unwrap_or(0);
    for n in &out.net {
        match n.fate {
            Fate::Dropped | Fate::Blackholed => f.dropped += 1,
            Fate::Corrupted => f.corrupted += 1,
            Fate::Truncated => f.truncated += 1,
            Fate::MtuDropped => f.mtu_dropped += 1,
            Fate::Duplicated(_) => f.duplicated += 1,
            Fate::Delayed => f.delayed += 1,
            Fate::Delivered => {}
        }
    }
    f
}
