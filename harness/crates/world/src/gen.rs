//! Scenario generators. Construction, not rejection; biased to boundaries and to *small*
//! windows so that blocking is the common case; every knob shrinks towards "simple".

use crate::scenario::*;
use proptest::prelude::*;
use vcore::Tier;

#[derive(Clone, Copy, Debug)]
pub struct GenCfg {
    pub max_clients: usize,
    pub max_streams: usize,
    /// upper bound of bytes per stream direction
    pub max_bytes: u32,
    pub faults: FaultProfile,
    /// probability (percent) that an endpoint gets small windows
    pub small_windows_pct: u32,
    /// allow resets / stop_sending
    pub aborts: bool,
    /// idle timeout range (ms)
    pub idle_ms: (u32, u32),
    pub cap_ms: u64,
    pub server_initiated: bool,
}

#[derive(Clone, Copy, Debug, PartialEq, Eq)]
pub enum FaultProfile {
    None,
    /// drops / dups / reorders / corruption, tape repeats for ever
    Lossy,
    /// faults confined to a finite prefix, then a clean network
    FinitePrefix,
}

pub const SIZE_POINTS: &[u32] = &[0, 1, 2, 1000, 1171, 1172, 1173, 1200, 1472, 4095, 4096, 4097, 8192, 16384, 65535, 65536, 65537];

pub fn size(max: u32) -> BoxedStrategy<u32> {
    let pts: Vec<u32> = SIZE_POINTS.iter().copied().filter(|p| *p <= max).collect();
    prop_oneof![
        3 => proptest::sample::select(pts),
        3 => 0u32..=max.min(3000),
        3 => 0u32..=max.min(40_000),
        1 => 0u32..=max,
    ]
    .boxed()
}

pub fn writer(max_bytes: u32, aborts: bool) -> BoxedStrategy<WriterScript> {
    let step = prop_oneof![
        5 => size(max_bytes).prop_map(WStep::Send),
        2 => size(max_bytes).prop_map(WStep::Write),
        1 => (0u32..30_000).prop_map(WStep::PauseUs),
        1 => Just(WStep::Flush),
    ];
    let end = if aborts {
        prop_oneof![
            6 => Just(WEnd::Finish),
            2 => Just(WEnd::FinishNoWait),
            2 => (0u32..1000).prop_map(WEnd::Reset),
        ]
        .boxed()
    } else {
        prop_oneof![4 => Just(WEnd::Finish), 1 => Just(WEnd::FinishNoWait)].boxed()
    };
    (prop::collection::vec(step, 0..6), end)
        .prop_map(move |(mut steps, end)| {
            // keep the total within the bound
            let mut total = 0u64;
            for s in steps.iter_mut() {
                if let WStep::Send(n) | WStep::Write(n) = s {
                    let room = (max_bytes as u64).saturating_sub(total);
                    if (*n as u64) > room {
                        *n = room as u32;
                    }
                    total += *n as u64;
                }
            }
            WriterScript { steps, end }
        })
        .boxed()
}

pub fn reader(aborts: bool) -> BoxedStrategy<ReaderScript> {
    let stop = if aborts {
        prop_oneof![
            8 => Just(None),
            1 => (0u64..70_000, 0u32..1000).prop_map(Some),
        ]
        .boxed()
    } else {
        Just(None).boxed()
    };
    (
        prop_oneof![3 => Just(0u32), 1 => 0u32..50_000],
        prop_oneof![3 => Just(0u32), 1 => 0u32..5_000],
        prop_oneof![2 => Just(0u8), 1 => 1u8..6],
        stop,
    )
        .prop_map(|(start_delay_us, pause_us, vectored, stop_after)| ReaderScript { start_delay_us, pause_us, vectored, stop_after })
        .boxed()
}

pub fn stream(cfg: GenCfg) -> BoxedStrategy<StreamScript> {
    let initiator = if cfg.server_initiated {
        prop_oneof![3 => Just(Side::Client), 1 => Just(Side::Server)].boxed()
    } else {
        Just(Side::Client).boxed()
    };
    (initiator, prop::bool::weighted(0.6), writer(cfg.max_bytes, cfg.aborts), reader(cfg.aborts), writer(cfg.max_bytes, cfg.aborts), reader(cfg.aborts))
        .prop_map(|(initiator, bidi, fwd, fwd_reader, rev, rev_reader)| StreamScript {
            initiator,
            bidi,
            fwd,
            fwd_reader,
            rev: bidi.then_some(rev),
            rev_reader: bidi.then_some(rev_reader),
        })
        .boxed()
}

fn window(small_pct: u32) -> BoxedStrategy<Option<u64>> {
    prop_oneof![
        (100 - small_pct) => Just(None),
        small_pct / 2 + 1 => prop_oneof![Just(1u64), Just(2), Just(100), Just(1200), Just(1500), Just(4096), Just(8192), Just(16384), Just(65536)].prop_map(Some),
        small_pct / 2 + 1 => (1u64..200_000).prop_map(Some),
    ]
    .boxed()
}

fn stream_limit(small_pct: u32) -> BoxedStrategy<Option<u64>> {
    prop_oneof![
        (100 - small_pct) => Just(None),
        small_pct + 1 => (1u64..6).prop_map(Some),
    ]
    .boxed()
}

pub fn limits(cfg: GenCfg) -> BoxedStrategy<LimitsCfg> {
    let p = cfg.small_windows_pct;
    let (idle_lo, idle_hi) = cfg.idle_ms;
    (
        (window(p), window(p), window(p), window(p)),
        (stream_limit(p), stream_limit(p), stream_limit(p), stream_limit(p)),
        prop_oneof![3 => Just(None), 1 => prop_oneof![Just(1u32), Just(1200), Just(4096), 1u32..100_000].prop_map(Some)],
        prop_oneof![3 => Just(None), 1 => prop_oneof![Just(0u16), Just(1), Just(25), Just(100), 0u16..400].prop_map(Some)],
        prop_oneof![3 => Just(None), 1 => (0u8..11).prop_map(Some)],
        prop_oneof![3 => Just(None), 1 => prop_oneof![Just(1u8), Just(2), Just(10), 1u8..40].prop_map(Some)],
        (idle_lo..=idle_hi).prop_map(Some),
        prop_oneof![3 => Just(None), 1 => prop_oneof![Just(1u16), Just(10), Just(100), 1u16..500].prop_map(Some)],
        prop_oneof![4 => Just(None), 1 => (0u8..=50).prop_map(Some)],
    )
        .prop_map(|((dw, bl, br, uw), (lb, lu, rb, ru), sb, ad, aei, ar, idle, irtt, jit)| LimitsCfg {
            data_window: dw,
            bidi_local_window: bl,
            bidi_remote_window: br,
            uni_window: uw,
            max_open_local_bidi: lb,
            max_open_local_uni: lu,
            max_open_remote_bidi: rb,
            max_open_remote_uni: ru,
            max_send_buffer: sb,
            max_ack_delay_ms: ad,
            ack_elicitation_interval: aei,
            max_ack_ranges: ar,
            idle_timeout_ms: idle,
            handshake_ms: None,
            initial_rtt_ms: irtt,
            pto_jitter: jit,
            max_active_cids: None,
        })
        .boxed()
}

pub fn mtu() -> BoxedStrategy<(u16, u16, u16)> {
    prop_oneof![
        3 => Just((1228u16, 1228u16, 1500u16)),
        1 => Just((1228u16, 1228u16, 1228u16)),
        1 => Just((1228u16, 1500u16, 1500u16)),
        1 => Just((1228u16, 1228u16, 9000u16)),
        // the base MTU is the size every endpoint's receive buffer is guaranteed to take: it stays at the minimum,
        // otherwise an endpoint whose max MTU (= receive buffer of the simulated socket) is below the peer's base MTU
        // truncates every full-sized datagram for ever, which is a configuration error, not a protocol state
        2 => (Just(1228u16), 0u16..=872, 0u16..=7500).prop_map(|(b, i, m)| {
            let initial = b.saturating_add(i).min(9000);
            let max = initial.saturating_add(m).min(9000);
            (b, initial, max)
        }),
    ]
    .boxed()
}

pub fn endpoint(cfg: GenCfg) -> BoxedStrategy<EndpointCfg> {
    (limits(cfg), prop_oneof![3 => Just(Cc::Cubic), 1 => Just(Cc::Bbr)], mtu())
        .prop_map(|(limits, cc, mtu)| EndpointCfg { limits, cc, mtu, cid: CidCfg::default(), datagram: false, retry: false })
        .boxed()
}

pub fn fault(corrupt: bool) -> BoxedStrategy<Fault> {
    if corrupt {
        prop_oneof![
            12 => Just(Fault::Pass),
            4 => Just(Fault::Drop),
            2 => (0u8..3).prop_map(Fault::Dup),
            3 => (1u16..40).prop_map(Fault::Delay),
            1 => (any::<u16>(), 1u8..=255).prop_map(|(pos, mask)| Fault::Corrupt { pos, mask }),
            1 => any::<u16>().prop_map(Fault::Truncate),
        ]
        .boxed()
    } else {
        prop_oneof![
            12 => Just(Fault::Pass),
            4 => Just(Fault::Drop),
            2 => (0u8..3).prop_map(Fault::Dup),
            3 => (1u16..40).prop_map(Fault::Delay),
        ]
        .boxed()
    }
}

pub fn net(cfg: GenCfg) -> BoxedStrategy<NetCfg> {
    let delay = prop_oneof![3 => Just(10_000u32), 2 => 100u32..50_000, 1 => 100u32..300_000];
    let mtu = prop_oneof![4 => Just(65_000u16), 1 => prop_oneof![Just(1200u16), Just(1300), Just(1472), 1200u16..9000]];
    match cfg.faults {
        FaultProfile::None => (delay, mtu)
            .prop_map(|(delay_us, max_udp_payload)| NetCfg { delay_us, max_udp_payload, ..Default::default() })
            .boxed(),
        FaultProfile::Lossy => (delay, mtu, prop::collection::vec(fault(true), 0..60), prop::collection::vec(fault(true), 0..60), any::<bool>())
            .prop_map(|(delay_us, max_udp_payload, tape_up, tape_down, tape_repeat)| NetCfg { delay_us, max_udp_payload, tape_up, tape_down, tape_repeat, ..Default::default() })
            .boxed(),
        FaultProfile::FinitePrefix => (delay, prop::collection::vec(fault(false), 0..40), prop::collection::vec(fault(false), 0..40))
            .prop_map(|(delay_us, tape_up, tape_down)| NetCfg { delay_us, tape_up, tape_down, tape_repeat: false, ..Default::default() })
            .boxed(),
    }
}

/// the same scenarios, a quarter of them with a server that validates the client's address with a Retry first
pub fn with_retry(s: BoxedStrategy<Scenario>) -> BoxedStrategy<Scenario> {
    (s, prop::bool::weighted(0.25))
        .prop_map(|(mut sc, retry)| {
            sc.server.retry = retry;
            sc
        })
        .boxed()
}

pub fn scenario(cfg: GenCfg) -> BoxedStrategy<Scenario> {
    let client = (endpoint(cfg), prop::collection::vec(stream(cfg), 1..=cfg.max_streams), prop_oneof![Just(None), (0u32..100).prop_map(Some)])
        .prop_map(|(endpoint, streams, close_code)| ClientCfg { endpoint, conn: ConnScript { streams, close_code, datagrams: vec![], server_close: None } });
    (any::<u64>(), endpoint(cfg), prop::collection::vec(client, 1..=cfg.max_clients), net(cfg))
        .prop_map(move |(seed, server, clients, net)| Scenario { seed, server, clients, net, cap_ms: cfg.cap_ms, strays: vec![], stateless_reset: false, rebinds: vec![], attacks: vec![], evil: None, tp: None, key_update_after: None, tls_aes256: false })
        .boxed()
}

// ---------------------------------------------------------------------------------------
// complete enumeration: every single fault (and every adjacent pair of drops) on the first N datagrams of each
// direction of a few fixed scenarios that exercise blocking, retransmission, resets and stop_sending

pub const SF_N: u64 = 36;
pub const SF_KINDS: [Fault; 5] = [Fault::Drop, Fault::Dup(1), Fault::Delay(30), Fault::Corrupt { pos: 17, mask: 0x40 }, Fault::Truncate(20)];
pub const SF_SHAPES: u64 = 4;

fn sf_writer(steps: Vec<WStep>, end: WEnd) -> WriterScript {
    WriterScript { steps, end }
}

pub fn single_fault_base(shape: u64) -> Scenario {
    let mut server = EndpointCfg::default();
    let mut client = EndpointCfg::default();
    server.limits.idle_timeout_ms = Some(6_000);
    client.limits.idle_timeout_ms = Some(6_000);
    let streams = match shape {
        // bidirectional transfer under small stream and connection windows (MAX_* frames among the first datagrams)
        0 => {
            server.limits.bidi_remote_window = Some(4_096);
            server.limits.data_window = Some(6_000);
            client.limits.bidi_local_window = Some(4_096);
            vec![StreamScript {
                initiator: Side::Client,
                bidi: true,
                fwd: sf_writer(vec![WStep::Send(9_000), WStep::Write(3_000)], WEnd::Finish),
                fwd_reader: ReaderScript::default(),
                rev: Some(sf_writer(vec![WStep::Send(7_000)], WEnd::Finish)),
                rev_reader: Some(ReaderScript::default()),
            }]
        }
        // three unidirectional streams against a stream-count limit of 1 (MAX_STREAMS needed twice)
        1 => {
            server.limits.max_open_remote_uni = Some(1);
            (0..3)
                .map(|_| StreamScript { initiator: Side::Client, bidi: false, fwd: sf_writer(vec![WStep::Send(2_500)], WEnd::Finish), fwd_reader: ReaderScript::default(), rev: None, rev_reader: None })
                .collect()
        }
        // the writer resets after part of the data, the peer's reader stops another stream early
        2 => vec![
            StreamScript { initiator: Side::Client, bidi: false, fwd: sf_writer(vec![WStep::Send(6_000), WStep::PauseUs(15_000), WStep::Send(2_000)], WEnd::Reset(7)), fwd_reader: ReaderScript::default(), rev: None, rev_reader: None },
            StreamScript {
                initiator: Side::Server,
                bidi: true,
                fwd: sf_writer(vec![WStep::Send(12_000)], WEnd::Finish),
                fwd_reader: ReaderScript { stop_after: Some((3_000, 9)), ..ReaderScript::default() },
                rev: Some(sf_writer(vec![WStep::Send(1_000)], WEnd::Finish)),
                rev_reader: Some(ReaderScript::default()),
            },
        ],
        // a larger transfer with MTU probing enabled and a slow reader
        _ => {
            client.mtu = (1228, 1228, 1500);
            server.mtu = (1228, 1228, 1500);
            vec![StreamScript {
                initiator: Side::Client,
                bidi: true,
                fwd: sf_writer(vec![WStep::Send(30_000)], WEnd::Finish),
                fwd_reader: ReaderScript { pause_us: 300, ..ReaderScript::default() },
                rev: Some(sf_writer(vec![WStep::Send(20_000)], WEnd::FinishNoWait)),
                rev_reader: Some(ReaderScript::default()),
            }]
        }
    };
    Scenario {
        seed: 11 + shape,
        server,
        clients: vec![ClientCfg { endpoint: client, conn: ConnScript { streams, close_code: Some(0), datagrams: vec![], server_close: None } }],
        net: NetCfg::default(),
        cap_ms: 60_000,
        strays: vec![],
        stateless_reset: false,
        rebinds: vec![],
        attacks: vec![],
        evil: None,
        tp: None,
        key_update_after: None,
        tls_aes256: false,
    }
}

pub fn single_fault_total(_t: Tier) -> u64 {
    SF_SHAPES * (2 * SF_N * SF_KINDS.len() as u64 + 2 * (SF_N - 1))
}

pub fn single_fault_case(_t: Tier, idx: u64) -> Scenario {
    let singles = 2 * SF_N * SF_KINDS.len() as u64;
    let per_shape = singles + 2 * (SF_N - 1);
    let mut sc = single_fault_base(idx / per_shape);
    let mut i = idx % per_shape;
    if i < singles {
        let dir = if i % 2 == 0 { Dir::Up } else { Dir::Down };
        i /= 2;
        sc.net.overrides.push((dir, (i % SF_N) as u32, SF_KINDS[(i / SF_N) as usize]));
    } else {
        i -= singles;
        let dir = if i % 2 == 0 { Dir::Up } else { Dir::Down };
        let k = (i / 2) as u32;
        sc.net.overrides.push((dir, k, Fault::Drop));
        sc.net.overrides.push((dir, k + 1, Fault::Drop));
    }
    sc
}
