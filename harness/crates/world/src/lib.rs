//! The end-to-end world: real s2n-quic endpoints on the deterministic testing IO, a
//! harness-owned scripted network, a recorder on every endpoint, scripted applications,
//! and per-property trace monitors.

pub mod app;
pub mod evil;
pub mod facts;
pub mod gen;
pub mod mon_c01;
pub mod mon_c02;
pub mod mon_c03;
pub mod mon_c04;
pub mod mon_c06;
pub mod mon_c08;
pub mod mon_c09;
pub mod mon_c10;
pub mod mon_c11;
pub mod mon_recovery;
pub mod mon_c12;
pub mod mon_c13;
pub mod mon_c14;
pub mod mon_c15;
pub mod net;
pub mod rec;
pub mod run;
pub mod scenario;
pub mod tptls;
pub mod wire;

use vcore::Property;

pub fn registry() -> Vec<Property> {
    vec![Property {
        id: "C01",
        rule: "generated scenarios (1-2 clients x 1-4 streams, both initiators, bidi/uni, 0-150 KB per direction in generated chunkings, \
               finish/reset/stop_sending, reader pauses and vectored reads, flow-control/stream-count/send-buffer limits drawn small in half of \
               the endpoints, CUBIC/BBR, MTU triples) on a scripted network (per-datagram fault tape: drop, duplicate, delay/reorder, corrupt, \
               truncate; MTU-drop). Payload = keyed position-dependent PRF, compared on every chunk read; clean end must equal the length written \
               before finish. Non-trivial: the trace contains a STREAM retransmission or an out-of-order packet arrival, and more than one \
               reassembly slot (4096 B) was carried on some stream. Distinct = distinct scenarios.",
        assumptions: &[
            "both endpoints are s2n-quic (a wire deviation that is symmetric is the business of C07)",
            "the virtual-time cap ends a case without verdict (counted as class `capped`)",
        ],
        subs: mon_c01::subs(),
        shards: 0,
    },
    Property {
        id: "C02",
        rule: "family 1: generated scenarios (windows / stream limits / send buffers drawn small in 70% of the endpoints so that every kind of \
               blocking occurs, both initiators, no aborts) whose drop/duplicate/delay faults are confined to the first 30 datagrams per direction, \
               then a clean network: judged when the faulty period is shorter than a third of the idle timeout; every application future must resolve \
               Ok and every stream be read to a clean end before a generous virtual-time cap. Family 2: a permanent blackhole of one or both \
               directions from a generated instant (incl. t=0 and mid-handshake), plus the sweep of all instants 0,5,..,195 ms of a fixed exchange: \
               every pending operation must fail no later than last-reception + max(idle, 3 PTO) + PTO + 1 s (+10 s handshake budget before \
               confirmation), PTO = largest (srtt + max(4 rttvar, 1 ms) + max_ack_delay) * 2^pto_count in the endpoint's recovery_metrics. \
               Non-trivial: (family 1) a *_BLOCKED frame was sent and a datagram carrying MAX_* or ACK was lost; (family 2) every case.",
        assumptions: &[
            "liveness is decided as bounded-time safety on the virtual clock; the deadline uses an upper bound of the PTO, so lateness below the slack is not detected",
            "window 0 / stream limit 0 configurations are excluded (no progress possible by construction)",
        ],
        subs: mon_c02::subs(),
        shards: 0,
    },
    Property {
        id: "C03",
        rule: "C01-style scenarios with flow-control windows, stream-count limits and send buffers drawn small (1 byte ... 200 KB) in 85% of the \
               endpoints, writers that have more data than credit, resets, lossy/reordering/duplicating network. Trace invariant at every sent \
               packet: STREAM/RESET_STREAM end offsets vs the largest per-stream and connection limits contained in packets processed before \
               (plus transport parameters), stream ids vs the largest MAX_STREAMS. Non-trivial: the endpoint got within one packet of a limit \
               (or opened its last permitted stream) and later received an increase. Distinct = distinct scenarios.",
        assumptions: &[
            "frames are decoded by the harness's own RFC 9000 parser (wire.rs)",
            "initial_max_data is taken from the peer's configuration (the transport_parameters_received event does not carry it)",
            "0-RTT (remembered parameters) is not exercised",
        ],
        subs: mon_c03::subs(),
        shards: 0,
    },
    Property {
        id: "C12",
        rule: "C01-style scenarios biased to resets / stop_sending / finish at generated points, MTU changes and loss forcing retransmission in a \
               different segmentation, client close at the end. Relation over all frames an endpoint sends per stream (bytes single-valued and equal \
               to what the application wrote, final size stable and respected, nothing after RESET_STREAM), stream ids returned by open() are \
               consecutive, and after CONNECTION_CLOSE only byte-identical copies of the close datagram leave, at most one per arrival. \
               Non-trivial: a byte range was retransmitted in a different segmentation and a stream was reset/stopped with data outstanding (or a \
               packet arrived during the closing period). Distinct = distinct scenarios.",
        assumptions: &["frames are decoded by the harness's own RFC 9000 parser (wire.rs)"],
        subs: mon_c12::subs(),
        shards: 0,
    },
    Property {
        id: "C04",
        rule: "evil peer: an honest s2n-quic endpoint (client or server) whose packet interceptor replaces, after both sides confirmed the \
               handshake, the cleartext payload of its k-th packet by frames of a generated violation class built against the victim's current \
               limits (stream data 1 byte or far beyond the stream limit, beyond MAX_DATA as a sum over streams, stream ids at/beyond MAX_STREAMS, \
               conflicting final sizes in four ways, frames for send-only / not-yet-opened / receive-only streams, frames forbidden in Handshake \
               packets, MAX_STREAMS/STREAMS_BLOCKED above 2^60, NEW_CONNECTION_ID with bad length or retire_prior_to, NEW_TOKEN/HANDSHAKE_DONE from a \
               client, offset+length above 2^62-1) or of a legal-but-unusual control class. Oracle: table class -> permitted codes (RFC 9000 4.1, \
               4.5, 4.6, 12.4, 19.x, plus PROTOCOL_VIOLATION per section 11); the victim must close while processing that packet with a permitted \
               code, put the CONNECTION_CLOSE on the wire and not hand the offending stream to its application; control inputs must not close. \
               Second sub-check: on generated honest lossy scenarios with small windows every MAX_STREAM_DATA / MAX_DATA / MAX_STREAMS emitted is \
               <= consumed by the application (time-resolved read log) + configured window / limit. Non-trivial: the victim processed the \
               rewritten packet; credit: MAX_DATA and MAX_STREAM_DATA both occurred.",
        assumptions: &[
            "the permitted-code table (evil.rs) is the trusted base; RFC 9000 section 11 lets PROTOCOL_VIOLATION stand in for any specific code",
            "the rewritten packet replaces honest frames of the evil side, so only the victim's reaction to that packet is judged",
        ],
        subs: mon_c04::subs(),
        shards: 0,
    },
    Property {
        id: "C06",
        rule: "C01-style scenarios on a clean network plus 1-40 attacker actions at generated instants after the handshake (racing the unauthenticated Initial exchange is outside the property), aimed at \
               the server or the client, from the genuine peer's address or a foreign one: random datagrams, verbatim replays (1-8 copies) of any \
               genuine datagram seen so far, bit flips, truncations, extensions, header/body splices of two genuine datagrams, toggled first-byte \
               bits (key phase, reserved, fixed, packet-number length). Oracle: every packet handed to frame processing was sealed by the peer \
               connection under that number with byte-identical cleartext, at most once per (connection, space, number); no forged number is ever \
               acknowledged; payload oracle of C01; no close/reset other than application closes; application-visible outcome equals that of the \
               same scenario without the attacker. Non-trivial: an injected datagram reached an endpoint after both sides confirmed the handshake \
               and a genuine 1-RTT datagram was replayed after the original. Component level, all three cipher suites of s2n-quic-crypto (crypto_reference_differential, crypto_forgery, \
               crypto_bitflip_exhaustive in comp/src/c06_crypto.rs): generated key level (Initial both roles / 0-RTT / Handshake / 1-RTT generations 0..6) x suite x header x packet number in [0,2^62) biased \
               to the 2^8..2^32 boundaries x pn length x payload 0..1500 B; the packet sealed by s2n-quic must be byte-identical to an RFC 9001 section 5 transcription written on raw HMAC / AEAD / AES-ECB \
               primitives (own HKDF-Expand-Label, nonce, sample offset, mask rule, own ChaCha20 block), the reference packet must open to the same header, number and payload, and every mutated packet \
               (bit flips by region, truncation, extension, splices, claimed packet number, other generation / direction / secret) must be refused exactly when the reference refuses it; non-trivial there: \
               the mutation changed bytes the receiver parses (forgery) or a full header-protection sample existed (differential).",
        assumptions: &[
            "'holding the keys' is modelled as 'was sealed by the peer endpoint in this process'; no cryptanalytic claim; constant-time behaviour is not observable",
            "end to end the connections run on TLS_AES_128_GCM_SHA256 or, in every second case, TLS_AES_256_GCM_SHA384 (server TLS policy 20250414; the suite is read back from the key_update events and counted as a class); s2n-tls offers no policy that selects TLS_CHACHA20_POLY1305_SHA256, which is covered at component level only (crypto_* sub-checks: all three suites against an RFC 9001 transcription on raw aws-lc-rs primitives); the stateless-reset exception is not exercised (the attacker never has the token)",
        ],
        subs: { let mut v = comp::c06_crypto::subs(); v.extend(mon_c06::subs()); v },
        shards: 0,
    },
    Property {
        id: "C13",
        rule: "one server with 1-3 concurrent clients; connection-id providers with generated lengths (4-20), lifetimes (none or 60-90 s, with \
               pauses of up to 15 s between writes so that ids expire while the connection is in use), handshake-id rotation on/off, \
               max_active_connection_ids 2-8 on either side, 0-3 NAT rebindings of client sockets at generated instants, lossy network for the \
               first datagrams. Ledger over NEW_CONNECTION_ID / RETIRE_CONNECTION_ID frames sent and processed (consecutive sequence numbers, \
               distinct ids and reset tokens per endpoint, retire_prior_to, active count vs the peer's limit, identical retransmissions, retire only \
               issued ids and never inside a packet addressed with the retired id) and routing of every fresh intact 1-RTT datagram addressed to an \
               unretired id. Non-trivial: an id was retired and replaced, a datagram carrying NEW_/RETIRE_CONNECTION_ID was lost, and two \
               connections with several ids were alive at once or a rebinding happened.",
        assumptions: &[
            "frames and datagram headers are decoded by the harness's own parser (wire.rs)",
            "routing is judged after handshake confirmation, for packets not older than 100 below the largest processed packet number",
            "preferred_address and zero-length local connection ids are not configurable in this code base",
        ],
        subs: mon_c13::subs(),
        shards: 0,
    },
    Property {
        id: "C11",
        rule: "handshake-centred scenarios: heavy drop/duplicate/delay tapes on the first 24 datagrams of each direction, clients that go silent, \
               initial-RTT and MTU variations, plus stray datagrams (random, short header with unknown connection id, unknown version, Version \
               Negotiation, undecryptable Initial; lengths biased to 1, 20-44, 1199-1201) sent to the server and to a client from addresses of their \
               own; plus the exhaustive single-fault and adjacent-double-drop enumeration over the first 14 datagrams of three handshake shapes. \
               Oracle: per-address byte ledger on the simulated wire (3x rule until the first intact client Handshake packet arrives), reply-size \
               rules for stateless reset and Version Negotiation, client Initial datagrams >= 1200. Non-trivial: the server came within one datagram \
               of the 3x limit, or a stray datagram elicited a reply.",
        assumptions: &[
            "address validation is inferred from the wire (long-header type bits are not protected); received bytes are over-counted (all copies, damaged ones included), which keeps the 3x check sound",
            "no Retry/NEW_TOKEN in the scenarios",
        ],
        subs: mon_c11::subs(),
        shards: 0,
    },
    Property {
        id: "C08",
        rule: "end-to-end: lossy/reordering/duplicating scenarios with generated max_ack_delay and ack-range limits; every ACK frame sent is \
               compared with the packets the endpoint's frame processing really saw, deadlines for acknowledging ack-eliciting packets, packet \
               numbers monotone. Non-trivial: the receive history has >=2 gaps, >=1 reordered ack-eliciting packet and >=1 lost ACK-carrying datagram.",
        assumptions: &["frames are decoded by the harness's own RFC 9000 parser (wire.rs)", "promptness is only asserted after handshake confirmation and before closing"],
        subs: { let mut v = comp::c08_pn::subs(); v.extend(mon_c08::subs()); v },
        shards: 0,
    },
    Property {
        id: "C09",
        rule: "end-to-end: event stream of running endpoints (packet_sent, ack_range_received, packet_lost, recovery_metrics, key_space_discarded) \
               cross-checked with the frames on the wire: RFC 9002 6.1 re-evaluated at each declared loss, exact bytes-in-flight ledger at every \
               recovery_metrics event, PTO spacing doubling. Non-trivial: trace has a loss by packet threshold, one by time threshold and a PTO expiry.",
        assumptions: &["events are the code's own reports, cross-checked against wire frames", "in-flight ledger only while a single path exists"],
        subs: { let mut v = comp::c09_recovery::subs(); v.extend(mon_c09::subs()); v },
        shards: 0,
    },
    Property {
        id: "C10",
        rule: "end-to-end: at every packet_sent of a congestion-controlled packet the harness's own in-flight ledger is compared with the \
               congestion window of the latest recovery_metrics. Non-trivial: the sender was within one datagram of its window and saw a loss.",
        assumptions: &["allowances: transmission mode other than Normal (PTO probe, MTU probe, path validation) and the first packet after a declared loss"],
        subs: { let mut v = comp::c10_cc::subs(); v.extend(mon_c10::subs()); v },
        shards: 0,
    },
    mon_c14::property(),
    {
        let c = comp::c15_keyset::property();
        let rule: &'static str = Box::leak(format!("COMPONENT: {} END-TO-END (key_updates_e2e): real s2n-quic connections whose endpoints start a 1-RTT key update after N = 2..200 packets per key (hook aws_s2n_quic_verif) on generated transfers (<= 200 KB per direction, 1-3 streams) with long tapes of drops, duplicates and delays (30% of the cases also corruption/truncation) confined to a finite prefix. Non-trivial = generation >= 3 reached and packets were lost or arrived out of order; distinct = distinct scenarios.", c.rule).into_boxed_str());
        let mut assumptions: Vec<&'static str> = c.assumptions.to_vec();
        assumptions.push("END-TO-END: the only change to the code under test is the key update window (cfg(aws_s2n_quic_verif) hook in ApplicationSpace::key_limits(), env S2N_QUIC_VERIF_KEY_UPDATE_AFTER); confidentiality/integrity limits stay the real ones (2^23 and more), so the limit rules themselves are decided by the component half only. A packet is 'genuine and timely' when the scripted network delivered its datagram intact, once and without extra delay; key generations are the endpoints' own key_update events.");
        let mut subs = c.subs;
        subs.extend(mon_c15::subs());
        Property { id: "C15", rule, assumptions: Box::leak(assumptions.into_boxed_slice()), subs, shards: 0 }
    }]
}
