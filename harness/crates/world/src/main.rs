fn main() {
    vcore::main_with(world::registry())
}
