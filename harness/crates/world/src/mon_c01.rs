//! C01 — stream bytes are delivered exactly once, in order, unaltered.

use crate::{
    app::{ReaderEnd, WriterEnd},
    facts::facts,
    gen::{self, FaultProfile, GenCfg},
    run::{self, Outcome},
    scenario::Scenario,
};
use vcore::{CaseResult, Fail, Obs, PropCheck, SubCheck, Tier};

/// the payload oracle over the application logs of one run
pub fn check_delivery(out: &Outcome) -> CaseResult {
    if let Some((key, msg)) = out.app.violations.first() {
        return Err(Fail::new(format!("c01:{key}"), msg.clone()));
    }
    for c in &out.app.conns {
        if let Some((side, id)) = c.unknown_streams.first() {
            return Err(Fail::new("c01:stream-invented", format!("{side:?} application was handed stream {id}, which its peer never opened (or handed it twice)")));
        }
    }
    let mut keys: Vec<_> = out.app.dirs.keys().copied().collect();
    keys.sort();
    for k in keys {
        let d = &out.app.dirs[&k];
        if d.read > d.attempted {
            return Err(Fail::new(
                "c01:read-more-than-written",
                format!("client {} stream {} ({:?} writes): reader got {} bytes, the writer only ever passed {} to send()", d.client, d.stream_id, d.from, d.read, d.attempted),
            ));
        }
        if let Some((ReaderEnd::Clean, t)) = &d.reader_end {
            match d.finish_called_at {
                None => {
                    return Err(Fail::new(
                        "c01:clean-end-without-finish",
                        format!("client {} stream {} ({:?} writes): reader observed a clean end of stream at t={t}us after {} bytes, but the writer never finished (writer end: {:?}, accepted {})", d.client, d.stream_id, d.from, d.read, d.writer_end, d.accepted),
                    ));
                }
                Some(total) => {
                    if d.read != total {
                        return Err(Fail::new(
                            "c01:clean-end-wrong-length",
                            format!("client {} stream {} ({:?} writes): reader observed a clean end after {} bytes, the writer finished after writing {}", d.client, d.stream_id, d.from, d.read, total),
                        ));
                    }
                }
            }
        }
        // a writer whose finish was fully acknowledged implies the peer received everything:
        // if the reader then reports a clean end it was checked above; nothing more to assert here.
        let _ = WriterEnd::Finished;
    }
    Ok(())
}

pub fn oracle(sc: &Scenario, obs: &mut Obs) -> CaseResult {
    let out = run::run(sc);
    let f = facts(&out);
    obs.units = out.recs.len() as u64;
    obs.class_if(out.capped, "capped");
    obs.class_if(f.stream_retransmissions > 0, "stream-retransmission");
    obs.class_if(f.reordered_rx > 0, "out-of-order-arrival");
    obs.class_if(f.corrupted + f.truncated > 0, "corruption");
    obs.class_if(f.mtu_dropped > 0, "mtu-drop");
    obs.class_if(f.data_blocked > 0, "blocked:connection-credit");
    obs.class_if(f.stream_data_blocked > 0, "blocked:stream-credit");
    obs.class_if(f.streams_blocked > 0, "blocked:stream-count");
    obs.class_if(f.resets > 0, "reset");
    obs.class_if(f.stop_sendings > 0, "stop-sending");
    obs.class_if(f.handshakes_completed == 0, "no-handshake");
    let clean = out.app.dirs.values().filter(|d| matches!(d.reader_end, Some((ReaderEnd::Clean, _)))).count();
    obs.class_if(clean > 0, "some-clean-end");
    obs.class_if(clean == out.app.dirs.len(), "all-clean-end");
    obs.nontrivial((f.stream_retransmissions > 0 || f.reordered_rx > 0) && f.max_stream_bytes > 4096);
    obs.sample = Some(serde_json::json!({
        "clients": sc.clients.len(),
        "streams": sc.clients.iter().map(|c| c.conn.streams.len()).collect::<Vec<_>>(),
        "bytes_per_direction": out.app.dirs.values().map(|d| d.read).collect::<Vec<_>>(),
        "net": {"delay_us": sc.net.delay_us, "tape_up": sc.net.tape_up.len(), "tape_down": sc.net.tape_down.len(), "repeat": sc.net.tape_repeat, "max_udp_payload": sc.net.max_udp_payload},
        "facts": {"retransmissions": f.stream_retransmissions, "reordered": f.reordered_rx, "dropped": f.dropped, "corrupted": f.corrupted, "dup": f.duplicated, "virtual_ms": out.end_us / 1000},
    }));
    if !f.wire_errors.is_empty() {
        return Err(Fail::new("c01:wire-undecodable", f.wire_errors[0].clone()));
    }
    check_delivery(&out)
}

pub const CFG: GenCfg = GenCfg {
    max_clients: 2,
    max_streams: 4,
    max_bytes: 150_000,
    faults: FaultProfile::Lossy,
    small_windows_pct: 50,
    aborts: true,
    idle_ms: (2_000, 30_000),
    cap_ms: 120_000,
    server_initiated: true,
};

pub fn subs() -> Vec<Box<dyn SubCheck>> {
    vec![
        Box::new(vcore::EnumCheck::<Scenario> { name: "delivery_single_fault_enum", total: gen::single_fault_total, case: gen::single_fault_case, oracle }),
        Box::new(PropCheck::<Scenario, _> {
        name: "delivery_generated",
        cases: |t| t.pick(2_000, 120_000),
        strategy: |_t: Tier| gen::with_retry(gen::scenario(CFG)),
        oracle,
        max_shrink_iters: 400,
    })]
}
