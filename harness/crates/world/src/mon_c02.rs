//! C02 — every operation terminates: data gets through or the failure is reported.
//!
//! Liveness is decided as bounded-time safety on the virtual clock the harness owns.

use crate::{
    app::{ReaderEnd, WriterEnd},
    facts::facts,
    gen::{self, FaultProfile, GenCfg},
    net::Fate,
    rec::Ev,
    run::{self, Outcome},
    scenario::*,
    wire::WFrame,
};
use proptest::prelude::*;
use std::collections::HashMap;
use vcore::{CaseResult, EnumCheck, Fail, Obs, PropCheck, SubCheck, Tier};

pub fn idle_ms(sc: &Scenario, client: usize) -> u64 {
    let a = sc.server.limits.idle_timeout_ms.unwrap_or(30_000) as u64;
    let b = sc.clients[client].endpoint.limits.idle_timeout_ms.unwrap_or(30_000) as u64;
    a.min(b)
}

/// time of the last datagram the network did not simply deliver
pub fn t_heal_us(out: &Outcome) -> u64 {
    out.net.iter().filter(|n| n.fate != Fate::Delivered).map(|n| n.deliveries_us.iter().copied().max().unwrap_or(n.t_us).max(n.t_us)).max().unwrap_or(0)
}

/// frame kinds carried by datagrams that the network dropped
fn lost_control_frames(out: &Outcome) -> (bool, bool) {
    // datagram hash -> (carries MAX_*, carries ACK)
    let mut cur: HashMap<(usize, u64), (bool, bool)> = HashMap::new();
    let mut by_hash: HashMap<u64, (bool, bool)> = HashMap::new();
    for r in &out.recs {
        match &r.ev {
            Ev::Tx { frames: Ok(fr), .. } => {
                let e = cur.entry((r.ep, r.conn)).or_default();
                for f in fr {
                    match f {
                        WFrame::MaxData(_) | WFrame::MaxStreamData { .. } | WFrame::MaxStreams { .. } => e.0 = true,
                        WFrame::Ack { .. } => e.1 = true,
                        _ => {}
                    }
                }
            }
            Ev::TxDatagram { hash, .. } => {
                let v = cur.remove(&(r.ep, r.conn)).unwrap_or_default();
                by_hash.insert(*hash, v);
            }
            _ => {}
        }
    }
    let mut lost = (false, false);
    for n in &out.net {
        if matches!(n.fate, Fate::Dropped | Fate::Blackholed) {
            if let Some(v) = by_hash.get(&n.hash) {
                lost.0 |= v.0;
                lost.1 |= v.1;
            }
        }
    }
    lost
}

fn describe_pending(out: &Outcome) -> String {
    let mut v = vec![];
    let mut keys: Vec<_> = out.app.dirs.keys().copied().collect();
    keys.sort();
    for k in keys {
        let d = &out.app.dirs[&k];
        if d.writer_started_us.is_some() && d.writer_end.is_none() {
            v.push(format!("writer of client {} stream {} ({:?} side) parked after {} of its bytes were accepted", d.client, d.stream_id, d.from, d.accepted));
        }
        if d.reader_started_us.is_some() && d.reader_end.is_none() {
            v.push(format!("reader of client {} stream {} (data from {:?}) parked after {} bytes", d.client, d.stream_id, d.from, d.read));
        }
        if d.writer_started_us.is_none() || d.reader_started_us.is_none() {
            v.push(format!("client {} stream {}: {} never started", d.client, d.stream_id, if d.writer_started_us.is_none() { "writer" } else { "reader" }));
        }
    }
    for (i, c) in out.app.conns.iter().enumerate() {
        if c.connect_end.is_none() {
            v.push(format!("client {i}: connect() never resolved"));
        }
    }
    v.truncate(6);
    v.join("; ")
}

/// Recognises one specific genuine defect (known finding) so that every *other* way of stalling is still reported:
/// an endpoint's Handshake-space CRYPTO data is declared lost while its congestion window is full of 1-RTT packets the
/// peer cannot process yet; the retransmission is blocked by the window, nothing is in flight in the Handshake space
/// (no PTO), the application space has no PTO before the handshake is confirmed: silence until the idle timeout.
pub fn handshake_crypto_blocked(out: &Outcome) -> Option<String> {
    use crate::rec::{Ev, Space};
    use std::collections::HashMap;
    // (ep, conn) -> (time of the loss, limited at that moment)
    let mut lost_at: HashMap<(usize, u64), u64> = HashMap::new();
    let mut limited: HashMap<(usize, u64), bool> = HashMap::new();
    let mut confirmed: HashMap<(usize, u64), bool> = HashMap::new();
    let mut idle_closed: HashMap<(usize, u64), bool> = HashMap::new();
    for r in &out.recs {
        let k = (r.ep, r.conn);
        match &r.ev {
            Ev::Metrics { congestion_limited, .. } => {
                limited.insert(k, *congestion_limited);
            }
            Ev::PacketLost { space: Space::Handshake, bytes, .. } if *bytes > 0 && limited.get(&k).copied().unwrap_or(false) => {
                lost_at.entry(k).or_insert(r.t_us);
            }
            // any later congestion-controlled Handshake packet means the retransmission did go out
            Ev::PacketSent { space: Space::Handshake, len, .. } if *len > 100 => {
                lost_at.remove(&k);
            }
            Ev::HandshakeConfirmed => {
                confirmed.insert(k, true);
            }
            Ev::Closed(kind) => {
                idle_closed.insert(k, format!("{kind:?}").contains("IdleTimerExpired"));
            }
            _ => {}
        }
    }
    let mut hits: Vec<_> = lost_at.iter().filter(|(k, _)| !confirmed.contains_key(k) && idle_closed.get(k).copied().unwrap_or(false)).collect();
    hits.sort();
    hits.first().map(|((ep, conn), t)| {
        format!("endpoint {ep} conn {conn}: Handshake CRYPTO data declared lost at t={t}us while the congestion window was full of 1-RTT data; it was never retransmitted and the connection idled out")
    })
}

// ---------------------------------------------------------------------------------------
// family 1: finite fault prefix, then a clean network for ever

pub fn oracle_finite(sc: &Scenario, obs: &mut Obs) -> CaseResult {
    let out = run::run(sc);
    let f = facts(&out);
    obs.units = out.recs.len() as u64;
    let heal = t_heal_us(&out);
    let min_idle = (0..sc.clients.len()).map(|c| idle_ms(sc, c)).min().unwrap_or(30_000);
    // judged only when the faulty period is short against the idle timeout and the handshake budget (10 s default)
    let judged = heal / 1000 < min_idle / 3 && heal / 1000 < 3_000;
    obs.class_if(!judged, "not-judged:faults-too-long");
    obs.class_if(f.data_blocked > 0, "blocked:connection-credit");
    obs.class_if(f.stream_data_blocked > 0, "blocked:stream-credit");
    obs.class_if(f.streams_blocked > 0, "blocked:stream-count");
    obs.class_if(f.pto_probes > 0, "pto-probe");
    let (lost_max, lost_ack) = lost_control_frames(&out);
    obs.class_if(lost_max, "lost:MAX_*");
    obs.class_if(lost_ack, "lost:ACK");
    obs.nontrivial(judged && (f.data_blocked + f.stream_data_blocked + f.streams_blocked > 0) && (lost_max || lost_ack));
    obs.sample = Some(serde_json::json!({
        "heal_ms": heal / 1000, "idle_ms": min_idle, "end_ms": out.end_us / 1000, "capped": out.capped,
        "blocked_frames": [f.data_blocked, f.stream_data_blocked, f.streams_blocked], "lost_max": lost_max, "lost_ack": lost_ack,
        "dropped": f.dropped, "streams": sc.clients.iter().map(|c| c.conn.streams.len()).collect::<Vec<_>>(),
    }));
    if !judged {
        return Ok(());
    }
    // (0) the known handshake deadlock (see known_findings.json): recognised by its own signature
    if let Some(what) = handshake_crypto_blocked(&out) {
        let key = "c02:handshake-crypto-retransmission-blocked-by-congestion-window";
        if obs.step_over_known(key) {
            return Ok(());
        }
        return Err(Fail::new(key, format!("network clean since t={}ms (idle timeout {}ms): {what}", heal / 1000, min_idle)));
    }
    // (1) nothing may still be pending when the (generous) cap is hit
    if out.capped {
        return Err(Fail::new(
            "c02:stalled-after-network-healed",
            format!("network clean since t={}ms, run capped at t={}ms (idle timeout {}ms) with application tasks still parked: {}", heal / 1000, out.end_us / 1000, min_idle, describe_pending(&out)),
        ));
    }
    // (2) and nothing may have failed: the faults were finite and short
    for (i, c) in out.app.conns.iter().enumerate() {
        if let Some((Err(e), t)) = &c.connect_end {
            return Err(Fail::new("c02:connect-failed-after-finite-faults", format!("client {i}: connect() failed at t={}us with {e} although the network was clean from t={}ms on", t, heal / 1000)));
        }
    }
    let mut keys: Vec<_> = out.app.dirs.keys().copied().collect();
    keys.sort();
    for k in keys {
        let d = &out.app.dirs[&k];
        if let Some((WriterEnd::Error(e), t)) = &d.writer_end {
            return Err(Fail::new("c02:stream-failed-after-finite-faults", format!("client {} stream {} writer ({:?} side) failed at t={}us with {e} although the network was clean from t={}ms on (idle timeout {}ms)", d.client, d.stream_id, d.from, t, heal / 1000, min_idle)));
        }
        match &d.reader_end {
            Some((ReaderEnd::Clean, _)) => {}
            Some((ReaderEnd::Error(e), t)) => {
                return Err(Fail::new("c02:stream-failed-after-finite-faults", format!("client {} stream {} reader (data from {:?}) failed at t={}us with {e} although the network was clean from t={}ms on (idle timeout {}ms)", d.client, d.stream_id, d.from, t, heal / 1000, min_idle)));
            }
            other => {
                return Err(Fail::new("c02:stream-not-completed", format!("client {} stream {} reader (data from {:?}) ended as {other:?}", d.client, d.stream_id, d.from)));
            }
        }
    }
    Ok(())
}

pub const CFG_FINITE: GenCfg = GenCfg {
    max_clients: 2,
    max_streams: 4,
    max_bytes: 40_000,
    faults: FaultProfile::FinitePrefix,
    small_windows_pct: 70,
    aborts: false,
    idle_ms: (6_000, 20_000),
    cap_ms: 60_000,
    server_initiated: true,
};

fn finite_scenario() -> impl Strategy<Value = Scenario> {
    gen::scenario(CFG_FINITE).prop_map(|mut sc| {
        // progress must be possible and reasonably fast: no 1-byte windows against kilobytes, short delays
        let fix = |l: &mut LimitsCfg| {
            for w in [&mut l.data_window, &mut l.bidi_local_window, &mut l.bidi_remote_window, &mut l.uni_window] {
                if let Some(v) = w {
                    *v = (*v).max(600);
                }
            }
            if let Some(v) = &mut l.max_send_buffer {
                *v = (*v).max(600);
            }
            l.initial_rtt_ms = Some(l.initial_rtt_ms.unwrap_or(20).min(50));
        };
        fix(&mut sc.server.limits);
        for c in &mut sc.clients {
            fix(&mut c.endpoint.limits);
            c.conn.close_code = None;
        }
        sc.net.delay_us = sc.net.delay_us.min(20_000);
        sc.net.max_udp_payload = 65_000;
        // delays are part of the faulty period: keep them short
        for t in [&mut sc.net.tape_up, &mut sc.net.tape_down] {
            t.truncate(30);
            for f in t.iter_mut() {
                if let Fault::Delay(u) = f {
                    *u = (*u).min(12);
                }
            }
        }
        sc
    })
}

// ---------------------------------------------------------------------------------------
// family 2: the network never recovers

fn pto_max_us(out: &Outcome, ep: usize) -> u64 {
    let mut m = 0u64;
    for r in &out.recs {
        if r.ep != ep {
            continue;
        }
        if let Ev::Metrics { srtt_us, rttvar_us, max_ack_delay_us, pto_count, .. } = &r.ev {
            let base = srtt_us + (4 * rttvar_us).max(1000) + max_ack_delay_us;
            m = m.max(base.saturating_mul(1 << (*pto_count).min(16)));
        }
    }
    m
}

pub fn oracle_blackhole(sc: &Scenario, obs: &mut Obs) -> CaseResult {
    let out = run::run(sc);
    obs.units = out.recs.len() as u64;
    let Some(bh) = sc.net.blackholes.iter().find(|b| b.to_ms == u64::MAX) else {
        return Ok(());
    };
    let t_b = bh.from_ms * 1000;
    obs.nontrivial(true);
    obs.class_if(bh.up && bh.down, "blackhole:both");
    obs.class_if(bh.up != bh.down, "blackhole:one-direction");
    let confirmed = out.recs.iter().any(|r| matches!(r.ev, Ev::HandshakeConfirmed) && r.t_us < t_b);
    obs.class_if(!confirmed, "blackhole-during-handshake");
    obs.sample = Some(serde_json::json!({"blackhole_ms": bh.from_ms, "up": bh.up, "down": bh.down, "end_ms": out.end_us / 1000, "capped": out.capped, "confirmed_before": confirmed}));
    // per endpoint: last datagram that reached it
    let addr_of = |ep: usize| if ep == 0 { out.server_addr } else { out.client_addrs[ep - 1] };
    for (ci, _) in sc.clients.iter().enumerate() {
        let idle = idle_ms(sc, ci) * 1000;
        for ep in [0usize, ci + 1] {
            let me = addr_of(ep);
            let peer = if ep == 0 { addr_of(ci + 1) } else { out.server_addr };
            let t_last_rx = out.net.iter().filter(|n| n.dst == me && n.src == peer).flat_map(|n| n.deliveries_us.iter().copied()).max().unwrap_or(0);
            let pto = pto_max_us(&out, ep);
            // effective idle timeout: negotiated value but at least three probe timeouts; it restarts at the first
            // ack-eliciting packet sent after the last reception (at most one PTO later); handshake budget 10 s
            let deadline = t_last_rx.max(t_b.min(t_last_rx + idle)) + idle.max(3 * pto) + pto + 1_000_000 + 10_000_000 * (!confirmed as u64);
            // operations of this endpoint's application that were pending when the network died
            let side = if ep == 0 { Side::Server } else { Side::Client };
            let mut keys: Vec<_> = out.app.dirs.keys().copied().filter(|k| k.0 == ci).collect();
            keys.sort();
            for k in keys {
                let d = &out.app.dirs[&k];
                let writes_here = d.from == Some(side);
                let (started, end_t, what) = if writes_here {
                    (d.writer_started_us, d.writer_end.as_ref().map(|e| e.1), "writer")
                } else {
                    (d.reader_started_us, d.reader_end.as_ref().map(|e| e.1), "reader")
                };
                let Some(_) = started else { continue };
                match end_t {
                    Some(t) if t <= deadline => {}
                    Some(t) => {
                        return Err(Fail::new(
                            "c02:failure-reported-late",
                            format!("endpoint {ep}: {what} of stream {} resolved at t={t}us, later than the deadline t={deadline}us (network dead since t={t_b}us, last datagram received t={t_last_rx}us, idle timeout {}us, max PTO {pto}us)", d.stream_id, idle),
                        ));
                    }
                    None => {
                        if out.end_us > deadline {
                            return Err(Fail::new(
                                "c02:failure-never-reported",
                                format!("endpoint {ep}: {what} of stream {} still parked at t={}us, the connection should have been reported failed by t={deadline}us (network dead since t={t_b}us, last datagram received t={t_last_rx}us, idle timeout {}us, max PTO {pto}us)", d.stream_id, out.end_us, idle),
                            ));
                        }
                    }
                }
            }
            if ep != 0 {
                if let Some(c) = out.app.conns.get(ci) {
                    if c.connect_end.is_none() && out.end_us > deadline {
                        return Err(Fail::new("c02:failure-never-reported", format!("client {ci}: connect() still pending at t={}us, deadline t={deadline}us (network dead since t={t_b}us)", out.end_us)));
                    }
                }
            }
        }
    }
    Ok(())
}

pub const CFG_BLACKHOLE: GenCfg = GenCfg {
    max_clients: 1,
    max_streams: 3,
    max_bytes: 60_000,
    faults: FaultProfile::FinitePrefix,
    small_windows_pct: 40,
    aborts: false,
    idle_ms: (300, 8_000),
    cap_ms: 90_000,
    server_initiated: true,
};

fn blackhole_scenario() -> impl Strategy<Value = Scenario> {
    (gen::scenario(CFG_BLACKHOLE), prop_oneof![Just(0u64), 0u64..100, 0u64..1500, 100u64..6000], prop_oneof![Just((true, true)), Just((true, false)), Just((false, true))]).prop_map(|(mut sc, from_ms, (up, down))| {
        sc.net.blackholes = vec![Blackhole { from_ms, to_ms: u64::MAX, up, down }];
        sc.net.delay_us = sc.net.delay_us.min(50_000);
        for c in &mut sc.clients {
            c.conn.close_code = None;
            // large transfers so that operations are still pending when the network dies
            for s in &mut c.conn.streams {
                s.fwd.steps.push(WStep::Send(30_000));
            }
        }
        sc
    })
}

// ---- exhaustive: blackhole from the k-th datagram on, for every k of a fixed exchange ----

fn enum_base() -> Scenario {
    let stream = |initiator| StreamScript {
        initiator,
        bidi: true,
        fwd: WriterScript { steps: vec![WStep::Send(6000), WStep::Send(6000)], end: WEnd::Finish },
        fwd_reader: ReaderScript::default(),
        rev: Some(WriterScript { steps: vec![WStep::Send(5000)], end: WEnd::Finish }),
        rev_reader: Some(ReaderScript::default()),
    };
    let mut ep = EndpointCfg::default();
    ep.limits.idle_timeout_ms = Some(2_000);
    ep.limits.bidi_local_window = Some(4096);
    ep.limits.bidi_remote_window = Some(4096);
    Scenario {
        seed: 11,
        server: ep.clone(),
        clients: vec![ClientCfg { endpoint: ep, conn: ConnScript { streams: vec![stream(Side::Client), stream(Side::Server)], close_code: None, datagrams: vec![], server_close: None } }],
        net: NetCfg::default(),
        cap_ms: 40_000,
        strays: vec![],
        stateless_reset: false,
        rebinds: vec![],
        attacks: vec![],
        evil: None,
        tp: None,
        key_update_after: None,
        tls_aes256: false,
    }
}

const ENUM_K: u64 = 40;

fn enum_case(_t: Tier, idx: u64) -> Scenario {
    // (k, which directions die)
    let k = idx % ENUM_K;
    let (up, down) = [(true, true), (true, false), (false, true)][(idx / ENUM_K) as usize % 3];
    let mut sc = enum_base();
    // the k-th datagram of the fault-free exchange leaves at a time that is a multiple of the one-way delay (10 ms): sweep those instants
    sc.net.blackholes = vec![Blackhole { from_ms: k * 5, to_ms: u64::MAX, up, down }];
    sc
}

pub fn subs() -> Vec<Box<dyn SubCheck>> {
    vec![
        Box::new(EnumCheck::<Scenario> { name: "blackhole_instant_enum", total: |_| ENUM_K * 3, case: enum_case, oracle: oracle_blackhole }),
        Box::new(PropCheck::<Scenario, _> {
            name: "finite_faults_then_clean",
            cases: |t| t.pick(2_000, 100_000),
            strategy: |_t: Tier| finite_scenario(),
            oracle: oracle_finite,
            max_shrink_iters: 300,
        }),
        Box::new(PropCheck::<Scenario, _> {
            name: "network_never_recovers",
            cases: |t| t.pick(1_000, 50_000),
            strategy: |_t: Tier| blackhole_scenario(),
            oracle: oracle_blackhole,
            max_shrink_iters: 300,
        }),
    ]
}
