//! C03 — a sender never exceeds the flow-control and stream limits its peer granted.
//!
//! Trace invariant evaluated at every packet an endpoint sends, against the credit
//! contained in packets the same endpoint has *processed* before (plus the peer's
//! transport parameters).

use crate::{
    facts::facts,
    gen::{self, FaultProfile, GenCfg},
    rec::{Ev, PeerParams, Space},
    run::{self, Outcome},
    scenario::Scenario,
    wire::WFrame,
};
use s2n_quic_core::transport::parameters::InitialMaxData;
use std::collections::HashMap;
use vcore::{CaseResult, Fail, Obs, PropCheck, SubCheck, Tier};

#[derive(Default)]
struct ConnState {
    params: Option<PeerParams>,
    max_data: u64,
    max_stream_data: HashMap<u64, u64>,
    max_streams_bidi: u64,
    max_streams_uni: u64,
    /// highest end offset sent (or final size of a reset) per stream
    sent_end: HashMap<u64, u64>,
    sent_total: u64,
    near_limit: bool,
    increased_after_near: bool,
}

fn is_local(ep: usize, id: u64) -> bool {
    // bit 0: 0 = client-initiated
    (id & 1 == 0) == (ep != 0)
}
fn is_bidi(id: u64) -> bool {
    id & 2 == 0
}

impl ConnState {
    /// `end` if counting it keeps the connection-level sum within `max_data`, else u64::MAX
    fn sent_total_with(&self, id: u64, end: u64, max_data: u64) -> u64 {
        let cur = self.sent_end.get(&id).copied().unwrap_or(0);
        if self.sent_total + end.saturating_sub(cur) <= max_data {
            end
        } else {
            0
        }
    }
    fn stream_limit(&self, ep: usize, id: u64) -> Option<u64> {
        let p = self.params.as_ref()?;
        let initial = if !is_bidi(id) {
            p.uni
        } else if is_local(ep, id) {
            // a stream this endpoint opened is "remote" from the peer's point of view
            p.bidi_remote
        } else {
            p.bidi_local
        };
        Some(initial.max(self.max_stream_data.get(&id).copied().unwrap_or(0)))
    }
}

pub struct Summary {
    pub near_limit_then_increase: bool,
    pub checked_frames: usize,
}

pub fn check_limits(sc: &Scenario, out: &Outcome, obs: &mut Obs) -> Result<Summary, Fail> {
    let mut conns: HashMap<(usize, u64), ConnState> = HashMap::new();
    let mut checked = 0usize;
    let conn_client = out.server_conn_clients();
    for r in &out.recs {
        if r.conn == u64::MAX {
            continue;
        }
        let st = conns.entry((r.ep, r.conn)).or_default();
        match &r.ev {
            Ev::Params(p) => {
                // the event does not carry initial_max_data: take what the peer configured
                let default = InitialMaxData::RECOMMENDED.as_varint().as_u64();
                let peer_cfg = if r.ep == 0 {
                    match conn_client.get(&r.conn) {
                        Some(c) => &sc.clients[*c].endpoint,
                        None => {
                            return Err(Fail::new("harness:unknown-client", format!("server connection {} cannot be attributed to a client", r.conn)));
                        }
                    }
                } else {
                    &sc.server
                };
                let mut p = p.clone();
                p.initial_max_data = peer_cfg.limits.data_window.unwrap_or(default);
                st.max_data = st.max_data.max(p.initial_max_data);
                st.max_streams_bidi = st.max_streams_bidi.max(p.streams_bidi);
                st.max_streams_uni = st.max_streams_uni.max(p.streams_uni);
                st.params = Some(p);
            }
            Ev::Rx { frames: Ok(frames), .. } => {
                for f in frames {
                    match f {
                        WFrame::MaxData(v) => {
                            if *v > st.max_data {
                                if st.near_limit {
                                    st.increased_after_near = true;
                                }
                                st.max_data = *v;
                            }
                        }
                        WFrame::MaxStreamData { id, max } => {
                            let cur = st.max_stream_data.entry(*id).or_insert(0);
                            if *max > *cur {
                                *cur = *max;
                                if st.near_limit {
                                    st.increased_after_near = true;
                                }
                            }
                        }
                        WFrame::MaxStreams { bidi, max } => {
                            let cur = if *bidi { &mut st.max_streams_bidi } else { &mut st.max_streams_uni };
                            if *max > *cur {
                                *cur = *max;
                                if st.near_limit {
                                    st.increased_after_near = true;
                                }
                            }
                        }
                        _ => {}
                    }
                }
            }
            Ev::Tx { frames: Ok(frames), space, pn, .. } => {
                for f in frames {
                    let (id, end, what) = match f {
                        WFrame::Stream { id, off, len, .. } => (*id, Some(off + len), "STREAM"),
                        WFrame::ResetStream { id, final_size, .. } => (*id, Some(*final_size), "RESET_STREAM"),
                        WFrame::StreamDataBlocked { id, .. } => (*id, None, "STREAM_DATA_BLOCKED"),
                        WFrame::StopSending { id, .. } => (*id, None, "STOP_SENDING"),
                        WFrame::MaxStreamData { id, .. } => (*id, None, "MAX_STREAM_DATA"),
                        _ => continue,
                    };
                    checked += 1;
                    if st.params.is_none() {
                        return Err(Fail::new(
                            "c03:stream-frame-before-parameters",
                            format!("endpoint {} conn {}: {what} for stream {id} sent in {space:?} pn {pn} before the peer's transport parameters were received", r.ep, r.conn),
                        ));
                    }
                    // stream-count limit for streams this endpoint opens
                    if is_local(r.ep, id) {
                        let idx = id >> 2;
                        let limit = if is_bidi(id) { st.max_streams_bidi } else { st.max_streams_uni };
                        if idx >= limit {
                            return Err(Fail::new(
                                "c03:stream-count-exceeded",
                                format!("endpoint {} conn {} t={}us: {what} references locally initiated stream {id} (index {idx}) but the largest MAX_STREAMS received so far allows {limit} {} streams", r.ep, r.conn, r.t_us, if is_bidi(id) { "bidirectional" } else { "unidirectional" }),
                            ));
                        }
                        if idx + 1 == limit {
                            st.near_limit = true;
                        }
                    }
                    let Some(end) = end else { continue };
                    let limit = st.stream_limit(r.ep, id).unwrap();
                    if end > limit {
                        // known finding on the pinned tree: a RESET_STREAM reports the connection credit the stream had
                        // reserved, which may exceed the stream's own limit (see known_findings.json); STREAM frames
                        // beyond the limit keep their own key
                        let key = if what == "RESET_STREAM" && end <= st.sent_total_with(id, end, st.max_data) { "c03:reset-final-size-exceeds-stream-limit" } else { "c03:stream-limit-exceeded" };
                        if !obs.step_over_known(key) {
                        return Err(Fail::new(
                            key,
                            format!("endpoint {} conn {} t={}us {space:?} pn {pn}: {what} on stream {id} ends at offset {end}, the largest per-stream limit received so far is {limit}", r.ep, r.conn, r.t_us),
                        ));
                        }
                    }
                    if end + 1500 >= limit && end > 0 {
                        st.near_limit = true;
                    }
                    let cur = st.sent_end.entry(id).or_insert(0);
                    if end > *cur {
                        st.sent_total += end - *cur;
                        *cur = end;
                    }
                    if st.sent_total > st.max_data {
                        return Err(Fail::new(
                            "c03:connection-limit-exceeded",
                            format!("endpoint {} conn {} t={}us {space:?} pn {pn}: after {what} on stream {id} the sum of stream lengths sent is {}, the largest connection limit received so far is {}", r.ep, r.conn, r.t_us, st.sent_total, st.max_data),
                        ));
                    }
                    if st.sent_total + 1500 >= st.max_data {
                        st.near_limit = true;
                    }
                }
                let _ = Space::App;
            }
            _ => {}
        }
    }
    Ok(Summary { near_limit_then_increase: conns.values().any(|c| c.increased_after_near), checked_frames: checked })
}

pub fn oracle(sc: &Scenario, obs: &mut Obs) -> CaseResult {
    let out = run::run(sc);
    let f = facts(&out);
    obs.units = out.recs.len() as u64;
    obs.class_if(out.capped, "capped");
    obs.class_if(f.data_blocked > 0, "blocked:connection-credit");
    obs.class_if(f.stream_data_blocked > 0, "blocked:stream-credit");
    obs.class_if(f.streams_blocked > 0, "blocked:stream-count");
    obs.class_if(f.max_data_frames > 0, "MAX_DATA-sent");
    obs.class_if(f.max_stream_data_frames > 0, "MAX_STREAM_DATA-sent");
    obs.class_if(f.max_streams_frames > 0, "MAX_STREAMS-sent");
    obs.class_if(f.resets > 0, "reset");
    obs.class_if(f.dropped > 0, "loss");
    if !f.wire_errors.is_empty() {
        return Err(Fail::new("c03:wire-undecodable", f.wire_errors[0].clone()));
    }
    let s = check_limits(sc, &out, obs)?;
    obs.nontrivial(s.near_limit_then_increase);
    obs.sample = Some(serde_json::json!({
        "server_limits": sc.server.limits,
        "client_limits": sc.clients.iter().map(|c| &c.endpoint.limits).collect::<Vec<_>>(),
        "streams": sc.clients.iter().map(|c| c.conn.streams.len()).collect::<Vec<_>>(),
        "stream_frames_checked": s.checked_frames,
        "blocked_frames": [f.data_blocked, f.stream_data_blocked, f.streams_blocked],
        "faults": {"dropped": f.dropped, "dup": f.duplicated, "delayed": f.delayed},
    }));
    Ok(())
}

pub const CFG: GenCfg = GenCfg {
    max_clients: 2,
    max_streams: 5,
    max_bytes: 100_000,
    faults: FaultProfile::Lossy,
    small_windows_pct: 85,
    aborts: true,
    idle_ms: (2_000, 10_000),
    cap_ms: 20_000,
    server_initiated: true,
};

pub fn subs() -> Vec<Box<dyn SubCheck>> {
    vec![
        Box::new(vcore::EnumCheck::<Scenario> { name: "limits_single_fault_enum", total: gen::single_fault_total, case: gen::single_fault_case, oracle }),
        Box::new(PropCheck::<Scenario, _> {
        name: "limits_generated",
        cases: |t| t.pick(2_000, 120_000),
        strategy: |_t: Tier| gen::scenario(CFG),
        oracle,
        max_shrink_iters: 400,
    })]
}
