//! C04 — peer protocol violations are rejected with the right error; buffering is bounded.

use crate::{
    facts::facts,
    gen::{self, FaultProfile, GenCfg},
    rec::{CloseKind, Ev, Space},
    run::{self, Outcome},
    scenario::*,
    wire::WFrame,
};
use proptest::prelude::*;
use std::collections::HashMap;
use vcore::{CaseResult, Fail, Obs, PropCheck, SubCheck, Tier};

const DEFAULT_WINDOW: u64 = 3_750_000;

fn class_name(c: EvilClass) -> &'static str {
    match c {
        EvilClass::BeyondStreamLimit => "beyond-stream-limit",
        EvilClass::BeyondConnLimit => "beyond-connection-limit",
        EvilClass::StreamIdBeyondLimit => "stream-id-beyond-limit",
        EvilClass::FinalSize => "final-size",
        EvilClass::WrongDirection => "wrong-direction",
        EvilClass::ForbiddenInSpace => "forbidden-in-packet-space",
        EvilClass::BadValue => "bad-value",
        EvilClass::Control => "control",
        EvilClass::AfterStopSending => "after-stop-sending",
    }
}

pub fn oracle_evil(sc: &Scenario, obs: &mut Obs) -> CaseResult {
    let Some(evil) = sc.evil else { return Ok(()) };
    let out = run::run(sc);
    obs.units = out.recs.len() as u64;
    let cname = class_name(evil.class);
    obs.class(cname);

    obs.class_if(evil.client, "victim:server");
    obs.class_if(!evil.client, "victim:client");
    let Some(inj) = &out.injection else {
        obs.class("not-injected");
        return Ok(());
    };
    let victim_ep = if evil.client { 0usize } else { 1usize };
    let cname = &format!("{cname}:{}", inj.tag);
    let space = if inj.space_app { Space::App } else { Space::Handshake };
    // did the victim process the rewritten packet?
    let rx = out.recs.iter().enumerate().find(|(_, r)| r.ep == victim_ep && matches!(&r.ev, Ev::Rx { space: s, pn, .. } if *s == space && *pn == inj.pn));
    let Some((rx_idx, rx)) = rx else {
        obs.class("injected-packet-not-processed");
        return Ok(());
    };
    let conn = rx.conn;
    let t_rx = rx.t_us;
    obs.sample = Some(serde_json::json!({"evil": evil, "what": inj.what, "permitted_codes": inj.permitted, "processed_at_us": t_rx}));
    // the victim's reaction: what happens before it turns to the next packet is the reaction to this one
    let next_rx = out.recs[rx_idx + 1..].iter().position(|r| r.ep == victim_ep && r.conn == conn && matches!(r.ev, Ev::Rx { .. })).map(|p| rx_idx + 1 + p).unwrap_or(out.recs.len());
    let closed = out.recs[rx_idx..].iter().find(|r| r.ep == victim_ep && r.conn == conn && matches!(r.ev, Ev::Closed(_)));
    let closed_now = out.recs[rx_idx..next_rx].iter().find(|r| r.ep == victim_ep && r.conn == conn && matches!(r.ev, Ev::Closed(_)));
    if inj.permitted.is_empty() {
        // control: a legal sequence must not close the connection with a transport error
        obs.nontrivial(true);
        if let Some(r) = closed_now {
            if let Ev::Closed(CloseKind::Transport { code, local: true, reason, .. }) = &r.ev {
                // (only the reaction to this very packet: bytes the evil side smuggled in are unknown to its own flow controller and may
                // make its later honest data exceed the limit)
                {
                    return Err(Fail::new(
                        format!("c04:control:closed:{code:#x}"),
                        format!("the victim (endpoint {victim_ep}) closed the connection with transport error {code:#x} ({reason}) at t={}us after a LEGAL input: {}", r.t_us, inj.what),
                    ));
                }
            }
        }
        return Ok(());
    }
    obs.nontrivial(true);
    let Some(r) = closed_now.or(closed) else {
        return Err(Fail::new(
            format!("c04:{cname}:not-rejected"),
            format!("the victim (endpoint {victim_ep}) processed a packet with {} at t={t_rx}us and did not close the connection (permitted error codes {:x?})", inj.what, inj.permitted),
        ));
    };
    match &r.ev {
        Ev::Closed(CloseKind::Transport { code, local: true, reason, .. }) if closed_now.is_some() => {
            if !inj.permitted.contains(code) {
                return Err(Fail::new(
                    format!("c04:{cname}:wrong-code:{code:#x}"),
                    format!("the victim (endpoint {victim_ep}) answered {} with transport error {code:#x} ({reason}); RFC 9000 permits {:x?}", inj.what, inj.permitted),
                ));
            }
            // the CONNECTION_CLOSE on the wire carries the same code
            let on_wire = out.recs[rx_idx..].iter().any(|x| {
                x.ep == victim_ep && x.conn == conn && matches!(&x.ev, Ev::Tx { frames: Ok(fr), .. } if fr.iter().any(|f| matches!(f, WFrame::ConnectionClose { app: false, code: c, .. } if c == code)))
            });
            if !on_wire {
                return Err(Fail::new(format!("c04:{cname}:close-frame-missing"), format!("the victim closed with {code:#x} but put no CONNECTION_CLOSE with that code on the wire ({})", inj.what)));
            }
        }
        other => {
            // whatever ended the connection later, the offending packet itself was not rejected
            return Err(Fail::new(
                format!("c04:{cname}:not-rejected"),
                format!("the victim (endpoint {victim_ep}) processed a packet with {} at t={t_rx}us without closing the connection with a transport error (permitted codes {:x?}); it ended later with {other:?} at t={}us", inj.what, inj.permitted, r.t_us),
            ));
        }
    }
    // none of the offending data reaches the application
    if let Some(id) = inj.offending_stream {
        let side = if victim_ep == 0 { Side::Server } else { Side::Client };
        if out.app.conns.iter().any(|c| c.unknown_streams.iter().any(|(s, i)| *s == side && *i == id)) {
            return Err(Fail::new(format!("c04:{cname}:offending-stream-delivered"), format!("stream {id} created by the offending frame ({}) was handed to the victim's application", inj.what)));
        }
    }
    Ok(())
}

pub const CFG_EVIL: GenCfg = GenCfg {
    max_clients: 1,
    max_streams: 3,
    max_bytes: 30_000,
    faults: FaultProfile::None,
    small_windows_pct: 35,
    aborts: false,
    idle_ms: (3_000, 6_000),
    cap_ms: 8_000,
    server_initiated: true,
};

pub fn evil_scenario() -> impl Strategy<Value = Scenario> {
    let class = prop_oneof![
        Just(EvilClass::BeyondStreamLimit),
        Just(EvilClass::BeyondConnLimit),
        Just(EvilClass::StreamIdBeyondLimit),
        Just(EvilClass::FinalSize),
        Just(EvilClass::WrongDirection),
        Just(EvilClass::ForbiddenInSpace),
        Just(EvilClass::BadValue),
        Just(EvilClass::Control),
        Just(EvilClass::AfterStopSending),
    ];
    (gen::scenario(CFG_EVIL), any::<bool>(), class, any::<u8>(), 0u8..12).prop_map(|(mut sc, client, class, variant, after)| {
        sc.evil = Some(EvilCfg { client, class, variant, after: if matches!(class, EvilClass::ForbiddenInSpace) { 0 } else { after } });
        sc.net.delay_us = sc.net.delay_us.min(20_000);
        sc.net.max_udp_payload = 65_000;
        if matches!(class, EvilClass::AfterStopSending) {
            // the first stream is opened by the evil side, carries more than the victim's reader wants (sent slowly, so that the
            // stream is still incomplete), and the victim's application stops it after a few bytes
            for c in &mut sc.clients {
                if let Some(s) = c.conn.streams.first_mut() {
                    s.initiator = if client { Side::Client } else { Side::Server };
                    let n = 1 + (variant as u64 * 37) % 3000;
                    s.fwd_reader = ReaderScript { start_delay_us: 0, pause_us: 0, vectored: 0, stop_after: Some((n, 7)) };
                    s.fwd.steps = vec![WStep::Send(4_000), WStep::PauseUs(200_000), WStep::Send(4_000), WStep::PauseUs(200_000), WStep::Send(4_000), WStep::PauseUs(200_000)];
                }
            }
        }
        for c in &mut sc.clients {
            c.conn.close_code = None;
            // make sure both sides have something to send for a while
            if let Some(s) = c.conn.streams.first_mut() {
                s.bidi = true;
                s.fwd.steps.push(WStep::Send(8_000));
                s.fwd.steps.push(WStep::PauseUs(50_000));
                s.fwd.steps.push(WStep::Send(8_000));
                if s.rev.is_none() {
                    s.rev = Some(WriterScript { steps: vec![], end: WEnd::Finish });
                    s.rev_reader = Some(ReaderScript::default());
                }
                if let Some(r) = &mut s.rev {
                    r.steps.push(WStep::Send(8_000));
                    r.steps.push(WStep::PauseUs(50_000));
                    r.steps.push(WStep::Send(8_000));
                }
            }
        }
        sc
    })
}

// ---------------------------------------------------------------------------------------
// credit bound: advertised credit <= consumed by the application + configured window

fn window_of(cfg: &EndpointCfg, ep_is_client: bool, id: u64) -> u64 {
    let l = &cfg.limits;
    let local = (id & 1 == 0) == ep_is_client;
    if id & 2 != 0 {
        l.uni_window.unwrap_or(DEFAULT_WINDOW)
    } else if local {
        l.bidi_local_window.unwrap_or(DEFAULT_WINDOW)
    } else {
        l.bidi_remote_window.unwrap_or(DEFAULT_WINDOW)
    }
}

pub fn check_credit(sc: &Scenario, out: &Outcome) -> Result<usize, Fail> {
    let conn_client = out.server_conn_clients();
    let mut checked = 0;
    for r in &out.recs {
        let Ev::Tx { frames: Ok(frames), pn, .. } = &r.ev else { continue };
        let client = if r.ep == 0 { conn_client.get(&r.conn).copied() } else { Some(r.ep - 1) };
        let Some(client) = client else { continue };
        let cfg = if r.ep == 0 { &sc.server } else { &sc.clients[client].endpoint };
        let me = if r.ep == 0 { Side::Server } else { Side::Client };
        // bytes this endpoint's application has consumed by now, per stream, on this connection
        let consumed = |id: Option<u64>| -> u64 {
            out.app
                .dirs
                .values()
                .filter(|d| d.client == client && d.from.is_some() && d.from != Some(me) && id.map(|i| i == d.stream_id).unwrap_or(true))
                .map(|d| d.read_log.iter().take_while(|(t, _)| *t <= r.t_us).last().map(|(_, n)| *n).unwrap_or(0))
                .sum()
        };
        for f in frames {
            match f {
                WFrame::MaxStreamData { id, max } => {
                    checked += 1;
                    let w = window_of(cfg, r.ep != 0, *id);
                    let c = consumed(Some(*id));
                    if *max > c + w {
                        return Err(Fail::new(
                            "c04:credit:stream-credit-exceeds-consumed-plus-window",
                            format!("endpoint {} conn {} pn {pn} t={}us: MAX_STREAM_DATA({id}) = {max}, but its application has consumed {c} bytes of that stream and the configured window is {w}", r.ep, r.conn, r.t_us),
                        ));
                    }
                }
                WFrame::MaxData(max) => {
                    checked += 1;
                    let w = cfg.limits.data_window.unwrap_or(DEFAULT_WINDOW);
                    let c = consumed(None);
                    if *max > c + w {
                        return Err(Fail::new(
                            "c04:credit:connection-credit-exceeds-consumed-plus-window",
                            format!("endpoint {} conn {} pn {pn} t={}us: MAX_DATA = {max}, but its application has consumed {c} bytes in total and the configured window is {w}", r.ep, r.conn, r.t_us),
                        ));
                    }
                }
                WFrame::MaxStreams { bidi, max } => {
                    checked += 1;
                    let limit = if *bidi { cfg.limits.max_open_remote_bidi } else { cfg.limits.max_open_remote_uni }.unwrap_or(100);
                    // streams of that type the peer has opened in this scenario (an upper bound of those it has closed)
                    let opened = sc.clients[client].conn.streams.iter().filter(|s| s.bidi == *bidi && (s.initiator == Side::Client) != (r.ep != 0)).count() as u64;
                    if *max > opened + limit {
                        return Err(Fail::new(
                            "c04:credit:stream-count-credit-exceeds-closed-plus-limit",
                            format!("endpoint {} conn {} pn {pn}: MAX_STREAMS({}) = {max}, but the peer opens only {opened} such streams and the configured limit is {limit}", r.ep, r.conn, if *bidi { "bidi" } else { "uni" }),
                        ));
                    }
                }
                _ => {}
            }
        }
    }
    Ok(checked)
}

pub fn oracle_credit(sc: &Scenario, obs: &mut Obs) -> CaseResult {
    let out = run::run(sc);
    let f = facts(&out);
    obs.units = out.recs.len() as u64;
    obs.class_if(out.capped, "capped");
    obs.class_if(f.max_data_frames > 0, "MAX_DATA");
    obs.class_if(f.max_stream_data_frames > 0, "MAX_STREAM_DATA");
    obs.class_if(f.max_streams_frames > 0, "MAX_STREAMS");
    let n = check_credit(sc, &out)?;
    obs.nontrivial(f.max_data_frames > 0 && f.max_stream_data_frames > 0 && n >= 4);
    obs.sample = Some(serde_json::json!({"credit_frames_checked": n, "server_limits": sc.server.limits, "streams": sc.clients.iter().map(|c| c.conn.streams.len()).collect::<Vec<_>>()}));
    let _ = HashMap::<u8, u8>::new();
    Ok(())
}

pub const CFG_CREDIT: GenCfg = GenCfg {
    max_clients: 2,
    max_streams: 4,
    max_bytes: 80_000,
    faults: FaultProfile::Lossy,
    small_windows_pct: 75,
    aborts: false,
    idle_ms: (2_000, 8_000),
    cap_ms: 12_000,
    server_initiated: true,
};

pub fn subs() -> Vec<Box<dyn SubCheck>> {
    vec![
        Box::new(PropCheck::<Scenario, _> {
            name: "evil_peer",
            cases: |t| t.pick(2_500, 120_000),
            strategy: |_t: Tier| evil_scenario(),
            oracle: oracle_evil,
            max_shrink_iters: 300,
        }),
        Box::new(PropCheck::<Scenario, _> {
            name: "credit_bound",
            cases: |t| t.pick(1_200, 60_000),
            strategy: |_t: Tier| gen::scenario(CFG_CREDIT),
            oracle: oracle_credit,
            max_shrink_iters: 300,
        }),
    ]
}
