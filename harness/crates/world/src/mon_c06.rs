//! C06 — only authentic packets have effect, and each at most once.

use crate::{
    app::ReaderEnd,
    gen::{self, FaultProfile, GenCfg},
    mon_c01::check_delivery,
    mon_recovery::check_acks,
    rec::{CloseKind, Ev, Space},
    run::{self, Outcome},
    scenario::*,
};
use proptest::prelude::*;
use std::collections::{HashMap, HashSet};
use vcore::{CaseResult, Fail, Obs, PropCheck, SubCheck, Tier};

#[derive(Default, Debug)]
pub struct Summary {
    pub injected_delivered: usize,
    pub injected_after_handshake: usize,
    pub replays_of_one_rtt: usize,
    pub rx_checked: usize,
}

/// application-visible outcome of a run (what the metamorphic comparison looks at)
fn visible(out: &Outcome) -> Vec<(usize, usize, bool, u64, String, String)> {
    let mut v: Vec<_> = out
        .app
        .dirs
        .iter()
        .map(|(k, d)| {
            let r = match &d.reader_end {
                Some((ReaderEnd::Clean, _)) => "clean".to_string(),
                Some((ReaderEnd::Stopped, _)) => "stopped".to_string(),
                Some((ReaderEnd::Error(e), _)) => format!("error:{}", e.chars().take(40).collect::<String>()),
                None => "pending".to_string(),
            };
            let w = match &d.writer_end {
                Some((crate::app::WriterEnd::Finished, _)) => "finished".to_string(),
                Some((crate::app::WriterEnd::Reset, _)) => "reset".to_string(),
                Some((crate::app::WriterEnd::Error(e), _)) => format!("error:{}", e.chars().take(40).collect::<String>()),
                None => "pending".to_string(),
            };
            (k.0, k.1, k.2, d.read, r, w)
        })
        .collect();
    v.sort();
    v
}

pub fn check_authenticity(out: &Outcome) -> Result<Summary, Fail> {
    let mut sum = Summary::default();
    let conn_client = out.server_conn_clients();
    // what each connection really sealed: (ep, conn, space, pn) -> payload hash
    let mut sealed: HashMap<(usize, u64, Space, u64), u64> = HashMap::new();
    for r in &out.recs {
        if let Ev::Tx { space, pn, hash, .. } = &r.ev {
            sealed.insert((r.ep, r.conn, *space, *pn), *hash);
        }
    }
    // client index -> server-side connection id
    // (a replayed old Initial legitimately makes the server start another, short-lived connection for the same address)
    let mut server_conns_of: HashMap<usize, Vec<u64>> = HashMap::new();
    for (c, cl) in &conn_client {
        server_conns_of.entry(*cl).or_default().push(*c);
    }
    let mut seen: HashSet<(usize, u64, Space, u64)> = HashSet::new();
    for r in &out.recs {
        let Ev::Rx { space, pn, hash, .. } = &r.ev else { continue };
        sum.rx_checked += 1;
        if !seen.insert((r.ep, r.conn, *space, *pn)) {
            return Err(Fail::new(
                "c06:packet-processed-twice",
                format!("endpoint {} conn {} {space:?}: packet number {pn} reached frame processing twice (t={}us): a replay had effect", r.ep, r.conn, r.t_us),
            ));
        }
        // the peer connection(s) that may have sealed it (client endpoints have one connection each, numbered 0)
        let peers: Vec<(usize, u64)> = if r.ep == 0 {
            conn_client.get(&r.conn).map(|c| vec![(*c + 1, 0u64)]).unwrap_or_default()
        } else {
            server_conns_of.get(&(r.ep - 1)).map(|v| v.iter().map(|c| (0usize, *c)).collect()).unwrap_or_default()
        };
        if peers.is_empty() {
            continue;
        }
        let candidates: Vec<u64> = peers.iter().filter_map(|(pep, pconn)| sealed.get(&(*pep, *pconn, *space, *pn)).copied()).collect();
        if candidates.is_empty() {
            return Err(Fail::new(
                "c06:forged-packet-processed",
                format!("endpoint {} conn {} {space:?} pn {pn} (t={}us): a packet reached frame processing that the peer never sealed", r.ep, r.conn, r.t_us),
            ));
        }
        if !candidates.contains(hash) {
            return Err(Fail::new(
                "c06:payload-not-as-sealed",
                format!("endpoint {} conn {} {space:?} pn {pn} (t={}us): the cleartext handed to frame processing differs from what the peer sealed under that packet number", r.ep, r.conn, r.t_us),
            ));
        }
    }
    let confirmed_at = out.recs.iter().filter(|r| matches!(r.ev, Ev::HandshakeConfirmed)).map(|r| r.t_us).max().unwrap_or(u64::MAX);
    let two_confirmed = out.recs.iter().filter(|r| matches!(r.ev, Ev::HandshakeConfirmed)).count() >= 2;
    let genuine: HashSet<u64> = out.net.iter().filter(|n| !n.injected).map(|n| n.hash).collect();
    for n in out.net.iter().filter(|n| n.injected && !n.deliveries_us.is_empty()) {
        sum.injected_delivered += 1;
        if two_confirmed && n.t_us > confirmed_at {
            sum.injected_after_handshake += 1;
            if genuine.contains(&n.hash) && n.payload.first().map(|b| b & 0x80 == 0).unwrap_or(false) {
                sum.replays_of_one_rtt += 1;
            }
        }
    }
    Ok(sum)
}

pub fn oracle(sc: &Scenario, obs: &mut Obs) -> CaseResult {
    let out = run::run(sc);
    obs.units = out.recs.len() as u64;
    obs.class_if(out.capped, "capped");
    let s = check_authenticity(&out)?;
    // never acknowledged: every acked pn was really processed (shared with C08)
    let mut scratch = Obs::default();
    match check_acks(sc, &out, &mut scratch) {
        Err(f) if f.key == "c08:ack-of-unreceived-packet" || f.key == "c08:packet-processed-twice" => {
            return Err(Fail::new(format!("c06:{}", f.key), f.msg));
        }
        _ => {}
    }
    // no effect on what the applications read
    check_delivery(&out).map_err(|f| Fail::new(format!("c06:{}", f.key), f.msg))?;
    // an established connection is never closed or reset by what the attacker sent
    let established: HashSet<(usize, u64)> = out.recs.iter().filter(|r| matches!(r.ev, Ev::HandshakeConfirmed | Ev::HandshakeComplete)).map(|r| (r.ep, r.conn)).collect();
    for r in &out.recs {
        if let Ev::Closed(kind) = &r.ev {
            // (a replayed old Initial makes the server start a connection attempt that never completes: not an established connection)
            if !established.contains(&(r.ep, r.conn)) {
                continue;
            }
            let bad = match kind {
                CloseKind::Closed { .. } | CloseKind::Application { .. } => false,
                CloseKind::IdleTimerExpired => false, // judged by the comparison with the attack-free run below
                _ => true,
            };
            if bad {
                return Err(Fail::new(
                    "c06:connection-closed-by-unauthentic-input",
                    format!("endpoint {} conn {} closed at t={}us with {kind:?} in a run whose only disturbance were {} injected datagrams", r.ep, r.conn, r.t_us, s.injected_delivered),
                ));
            }
        }
    }
    // metamorphic: same scenario without the attacker => same application-visible outcome
    let mut base = sc.clone();
    base.attacks.clear();
    let out0 = run::run(&base);
    // (directions still in progress when a run hit its virtual-time cap have no outcome yet: not compared)
    let (a, b) = (visible(&out), visible(&out0));
    let done = |x: &(usize, usize, bool, u64, String, String)| x.4 != "pending" && x.5 != "pending";
    let (a, b): (Vec<_>, Vec<_>) = a.into_iter().zip(b.into_iter()).filter(|(x, y)| done(x) && done(y)).unzip();
    if a != b {
        let diff = a.iter().zip(b.iter()).find(|(x, y)| x != y).map(|(x, y)| format!("with attacker {x:?}, without {y:?}")).unwrap_or_default();
        return Err(Fail::new(
            "c06:attacker-changed-application-outcome",
            format!("the application-visible outcome differs from the same scenario without the {} injected datagrams: {diff}", s.injected_delivered),
        ));
    }
    for (suite, name) in [(0u8, "suite:TLS_AES_128_GCM_SHA256"), (1, "suite:TLS_AES_256_GCM_SHA384"), (2, "suite:TLS_CHACHA20_POLY1305_SHA256")] {
        obs.class_if(out.recs.iter().any(|r| matches!(r.ev, crate::rec::Ev::KeyUpdate { space: crate::rec::Space::App, suite: x, .. } if x == suite)), name);
    }
    obs.class_if(out.recs.iter().any(|r| matches!(r.ev, crate::rec::Ev::KeyUpdate { space: crate::rec::Space::App, generation: g, .. } if g >= 1)), "key-update-during-attack");
    obs.class_if(s.injected_after_handshake > 0, "injected-into-established-connection");
    obs.class_if(s.replays_of_one_rtt > 0, "replay-of-1rtt-packet");
    obs.class_if(sc.attacks.iter().any(|a| matches!(a.kind, AttackKind::Splice { .. })), "splice");
    obs.class_if(sc.attacks.iter().any(|a| matches!(a.kind, AttackKind::FirstByte { .. })), "first-byte-bits");
    obs.class_if(sc.attacks.iter().any(|a| !a.spoof_peer), "foreign-source");
    obs.nontrivial(s.injected_after_handshake > 0 && s.replays_of_one_rtt > 0);
    obs.sample = Some(serde_json::json!({
        "attacks": sc.attacks.iter().take(5).collect::<Vec<_>>(), "attack_count": sc.attacks.len(),
        "injected_delivered": s.injected_delivered, "after_handshake": s.injected_after_handshake, "replays_of_1rtt": s.replays_of_one_rtt,
        "rx_packets_checked": s.rx_checked, "virtual_ms": out.end_us / 1000,
    }));
    Ok(())
}

pub const CFG: GenCfg = GenCfg {
    max_clients: 1,
    max_streams: 3,
    max_bytes: 40_000,
    faults: FaultProfile::None,
    small_windows_pct: 20,
    aborts: false,
    idle_ms: (5_000, 20_000),
    cap_ms: 30_000,
    server_initiated: true,
};

fn attack() -> impl Strategy<Value = Attack> {
    let kind = prop_oneof![
        2 => (1u16..1500).prop_map(|len| AttackKind::Random { len }),
        4 => (0u16..u16::MAX, 0u8..6).prop_map(|(back, copies)| AttackKind::Replay { back, copies }),
        3 => (any::<u16>(), any::<u16>(), 1u8..=255).prop_map(|(back, pos, mask)| AttackKind::Flip { back, pos, mask }),
        1 => (any::<u16>(), any::<u16>()).prop_map(|(back, keep)| AttackKind::Truncate { back, keep }),
        1 => (any::<u16>(), any::<u16>()).prop_map(|(back, extra)| AttackKind::Extend { back, extra }),
        2 => (any::<u16>(), any::<u16>(), any::<u16>()).prop_map(|(back_a, back_b, cut)| AttackKind::Splice { back_a, back_b, cut }),
        2 => (any::<u16>(), prop_oneof![Just(0x04u8), Just(0x18), Just(0x40), Just(0x20), Just(0x03), Just(0x80), 1u8..=255]).prop_map(|(back, mask)| AttackKind::FirstByte { back, mask }),
    ];
    (prop_oneof![2 => 0u32..300_000, 3 => 0u32..1_200_000], any::<bool>(), prop::bool::weighted(0.8), kind, any::<u64>())
        .prop_map(|(at_us, to_server, spoof_peer, kind, seed)| Attack { at_us, to_server, spoof_peer, kind, seed })
}

pub fn scenario() -> impl Strategy<Value = Scenario> {
    (gen::scenario(CFG), prop::collection::vec(attack(), 1..40)).prop_map(|(mut sc, attacks)| {
        sc.attacks = attacks;
        // half of the cases run on TLS_AES_256_GCM_SHA384 (server policy), the others on TLS_AES_128_GCM_SHA256
        sc.tls_aes256 = sc.seed & 1 == 1;
        // a third of the cases update their 1-RTT keys every 24..220 packets (hook aws_s2n_quic_verif), so that replays and forgeries
        // also meet connections that are in the middle of a key update (old keys still retained, next keys already derived)
        if (sc.seed >> 1) % 3 == 0 {
            sc.key_update_after = Some(24 + ((sc.seed >> 8) % 197) as u32);
        }
        sc.net.delay_us = sc.net.delay_us.min(30_000);
        sc.net.max_udp_payload = 65_000;
        for c in &mut sc.clients {
            c.conn.close_code = None;
            // keep the connection busy for a while so that the attacker meets an established connection
            if let Some(s) = c.conn.streams.first_mut() {
                s.fwd.steps.insert(0, WStep::PauseUs(100_000));
                s.fwd.steps.push(WStep::Send(20_000));
                s.fwd.steps.push(WStep::PauseUs(300_000));
                s.fwd.steps.push(WStep::Send(3_000));
            }
        }
        sc
    })
}

pub fn subs() -> Vec<Box<dyn SubCheck>> {
    vec![Box::new(PropCheck::<Scenario, _> {
        name: "attacker_generated",
        cases: |t| t.pick(1_500, 80_000),
        strategy: |_t: Tier| scenario(),
        oracle,
        max_shrink_iters: 300,
    })]
}
