//! C08 (end-to-end part) — ACKs name only packets really received, promptly.

use crate::{
    facts::facts,
    gen::{self, FaultProfile, GenCfg},
    mon_recovery::check_acks,
    run,
    scenario::Scenario,
};
use vcore::{CaseResult, Fail, Obs, PropCheck, SubCheck, Tier};

pub fn oracle(sc: &Scenario, obs: &mut Obs) -> CaseResult {
    let out = run::run(sc);
    let f = facts(&out);
    obs.units = out.recs.len() as u64;
    obs.class_if(out.capped, "capped");
    if !f.wire_errors.is_empty() {
        return Err(Fail::new("c08:wire-undecodable", f.wire_errors[0].clone()));
    }
    let s = check_acks(sc, &out, obs)?;
    obs.class_if(s.gaps >= 2, "gaps>=2");
    obs.class_if(s.reordered_ack_eliciting > 0, "reordered-ack-eliciting");
    obs.class_if(s.lost_ack_datagrams > 0, "lost-ack-datagram");
    obs.class_if(s.prompt_checked > 0, "promptness-checked");
    obs.class_if(f.duplicated > 0, "duplicates");
    obs.nontrivial(s.gaps >= 2 && s.reordered_ack_eliciting >= 1 && s.lost_ack_datagrams >= 1);
    obs.sample = Some(serde_json::json!({
        "ack_frames": s.ack_frames, "gaps": s.gaps, "reordered_ack_eliciting": s.reordered_ack_eliciting,
        "lost_ack_datagrams": s.lost_ack_datagrams, "promptness_checked": s.prompt_checked,
        "max_ack_delay_ms": [sc.server.limits.max_ack_delay_ms, sc.clients[0].endpoint.limits.max_ack_delay_ms],
        "max_ack_ranges": [sc.server.limits.max_ack_ranges, sc.clients[0].endpoint.limits.max_ack_ranges],
        "faults": {"dropped": f.dropped, "dup": f.duplicated, "delayed": f.delayed},
    }));
    Ok(())
}

pub const CFG: GenCfg = GenCfg {
    max_clients: 1,
    max_streams: 3,
    max_bytes: 80_000,
    faults: FaultProfile::Lossy,
    small_windows_pct: 20,
    aborts: false,
    idle_ms: (2_000, 10_000),
    cap_ms: 15_000,
    server_initiated: true,
};

pub fn subs() -> Vec<Box<dyn SubCheck>> {
    vec![Box::new(PropCheck::<Scenario, _> {
        name: "acks_e2e",
        cases: |t| t.pick(1_500, 100_000),
        strategy: |_t: Tier| gen::scenario(CFG),
        oracle,
        max_shrink_iters: 400,
    })]
}
