//! C08 (end-to-end part) — ACKs name only packets really received, promptly.

use crate::{
    facts::facts,
    gen::{self, FaultProfile, GenCfg},
    mon_recovery::check_acks,
    run,
    scenario::Scenario,
};
use crate::scenario::{DgramStep, Side, WStep};
use proptest::prelude::*;
use vcore::{CaseResult, Fail, Obs, PropCheck, SubCheck, Tier};

pub fn oracle(sc: &Scenario, obs: &mut Obs) -> CaseResult {
    let out = run::run(sc);
    let f = facts(&out);
    obs.units = out.recs.len() as u64;
    obs.class_if(out.capped, "capped");
    if !f.wire_errors.is_empty() {
        return Err(Fail::new("c08:wire-undecodable", f.wire_errors[0].clone()));
    }
    let s = check_acks(sc, &out, obs)?;
    obs.class_if(s.gaps >= 2, "gaps>=2");
    obs.class_if(s.reordered_ack_eliciting > 0, "reordered-ack-eliciting");
    obs.class_if(s.lost_ack_datagrams > 0, "lost-ack-datagram");
    obs.class_if(s.prompt_checked > 0, "promptness-checked");
    obs.class_if(f.duplicated > 0, "duplicates");
    obs.class_if(out.app.datagrams_sent > 0, "unreliable-datagrams-sent");
    obs.class_if(s.ack_squeezed_out > 0, "packet-without-room-for-pending-ack");
    obs.nontrivial(s.gaps >= 2 && s.reordered_ack_eliciting >= 1 && s.lost_ack_datagrams >= 1);
    obs.sample = Some(serde_json::json!({
        "ack_frames": s.ack_frames, "gaps": s.gaps, "reordered_ack_eliciting": s.reordered_ack_eliciting,
        "lost_ack_datagrams": s.lost_ack_datagrams, "promptness_checked": s.prompt_checked,
        "max_ack_delay_ms": [sc.server.limits.max_ack_delay_ms, sc.clients[0].endpoint.limits.max_ack_delay_ms],
        "max_ack_ranges": [sc.server.limits.max_ack_ranges, sc.clients[0].endpoint.limits.max_ack_ranges],
        "faults": {"dropped": f.dropped, "dup": f.duplicated, "delayed": f.delayed},
    }));
    Ok(())
}

pub const CFG: GenCfg = GenCfg {
    max_clients: 1,
    max_streams: 3,
    max_bytes: 80_000,
    faults: FaultProfile::Lossy,
    small_windows_pct: 20,
    aborts: false,
    idle_ms: (2_000, 10_000),
    cap_ms: 15_000,
    server_initiated: true,
};

/// half of the scenarios use the unreliable datagram extension: a full-sized DATAGRAM frame leaves no room for the ACK
/// frame in its packet, which must then travel in a later one - still within the deadline
pub fn scenario() -> impl Strategy<Value = Scenario> {
    let dgram = (any::<bool>(), 0u32..400_000, prop_oneof![3 => 1_050u16..1_200, 1 => 1u16..1_500]).prop_map(|(client, at_us, len)| DgramStep { side: if client { Side::Client } else { Side::Server }, at_us, len });
    (gen::scenario(CFG), prop::bool::weighted(0.5), prop::collection::vec(dgram, 1..10), prop::collection::vec((1_000u32..40_000, 1u32..3_000), 0..8)).prop_map(|(mut sc, on, dgrams, trickle)| {
        if on {
            sc.server.datagram = true;
            for c in sc.clients.iter_mut() {
                c.endpoint.datagram = true;
                c.conn.datagrams = dgrams.clone();
                // a slow trickle of small writes keeps delayed acknowledgements pending while datagrams go out
                if let Some(st) = c.conn.streams.first_mut() {
                    for (pause, n) in &trickle {
                        st.fwd.steps.push(WStep::PauseUs(*pause));
                        st.fwd.steps.push(WStep::Send(*n));
                    }
                }
            }
        }
        sc
    })
}

pub fn subs() -> Vec<Box<dyn SubCheck>> {
    vec![Box::new(PropCheck::<Scenario, _> {
        name: "acks_e2e",
        cases: |t| t.pick(1_500, 100_000),
        strategy: |_t: Tier| scenario(),
        oracle,
        max_shrink_iters: 400,
    })]
}
