//! C09 (end-to-end part) — loss detection is sound, the in-flight ledger is exact.

use crate::{
    facts::facts,
    gen::{self, FaultProfile, GenCfg},
    mon_recovery::{check_recovery, RecoveryOpts},
    run,
    scenario::Scenario,
};
use vcore::{CaseResult, Fail, Obs, PropCheck, SubCheck, Tier};

pub fn oracle(sc: &Scenario, obs: &mut Obs) -> CaseResult {
    let out = run::run(sc);
    let f = facts(&out);
    obs.units = out.recs.len() as u64;
    obs.class_if(out.capped, "capped");
    if !f.wire_errors.is_empty() {
        return Err(Fail::new("c09:wire-undecodable", f.wire_errors[0].clone()));
    }
    let s = check_recovery(sc, &out, &RecoveryOpts { check_c09: true, check_c10: false }, obs)?;
    obs.class_if(s.lost_by_packet_threshold > 0, "lost:packet-threshold");
    obs.class_if(s.lost_by_time_threshold > 0, "lost:time-threshold");
    obs.class_if(s.pto_expiries > 0, "pto-expiry");
    obs.class_if(s.spurious > 0, "spurious-loss-later-acked");
    obs.class_if(s.discard_with_outstanding > 0, "space-discard-with-outstanding");
    obs.class_if(s.multi_path, "multi-path");
    obs.class_if(s.retries > 0, "retry-accepted");
    obs.class_if(s.pto_doubling_checked > 0, "pto-doubling-checked");
    obs.nontrivial(s.lost_by_packet_threshold > 0 && s.lost_by_time_threshold > 0 && s.pto_expiries > 0);
    obs.sample = Some(serde_json::json!({
        "lost_by_packet_threshold": s.lost_by_packet_threshold, "lost_by_time_threshold": s.lost_by_time_threshold,
        "pto_expiries": s.pto_expiries, "spurious": s.spurious, "metrics_checked": s.metrics_checked,
        "discard_with_outstanding": s.discard_with_outstanding,
        "faults": {"dropped": f.dropped, "dup": f.duplicated, "delayed": f.delayed},
    }));
    Ok(())
}

pub const CFG: GenCfg = GenCfg {
    max_clients: 1,
    max_streams: 3,
    max_bytes: 80_000,
    faults: FaultProfile::Lossy,
    small_windows_pct: 20,
    aborts: false,
    idle_ms: (2_000, 10_000),
    cap_ms: 15_000,
    server_initiated: true,
};

pub fn subs() -> Vec<Box<dyn SubCheck>> {
    vec![Box::new(PropCheck::<Scenario, _> {
        name: "recovery_e2e",
        cases: |t| t.pick(1_500, 100_000),
        strategy: |_t: Tier| gen::with_retry(gen::scenario(CFG)),
        oracle,
        max_shrink_iters: 400,
    })]
}
