//! C10 (end-to-end part) — a running connection sends congestion-controlled packets only
//! while bytes in flight are below the window (probes and the first packet after a loss excepted).

use crate::{
    facts::facts,
    gen::{self, FaultProfile, GenCfg},
    mon_recovery::{check_recovery, RecoveryOpts},
    run,
    scenario::Scenario,
};
use vcore::{CaseResult, Fail, Obs, PropCheck, SubCheck, Tier};

pub fn oracle(sc: &Scenario, obs: &mut Obs) -> CaseResult {
    let out = run::run(sc);
    let f = facts(&out);
    obs.units = out.recs.len() as u64;
    obs.class_if(out.capped, "capped");
    if !f.wire_errors.is_empty() {
        return Err(Fail::new("c10:wire-undecodable", f.wire_errors[0].clone()));
    }
    let s = check_recovery(sc, &out, &RecoveryOpts { check_c09: false, check_c10: true }, obs)?;
    obs.class_if(s.congestion_limited_seen, "congestion-limited");
    obs.class_if(s.losses > 0, "loss");
    obs.class_if(s.losses_inside_recovery > 0, "loss-inside-recovery-period");
    obs.class_if(s.recovery_periods > 1, "recovery-periods>1");
    obs.class_if(s.over_window_sends > 0, "over-window-send-with-allowance");
    obs.class_if(s.ce_signals > 0, "ecn-ce-reported");
    obs.class_if(matches!(sc.server.cc, crate::scenario::Cc::Bbr) || sc.clients.iter().any(|c| matches!(c.endpoint.cc, crate::scenario::Cc::Bbr)), "bbr");
    obs.nontrivial(s.congestion_limited_seen && s.losses > 0);
    obs.sample = Some(serde_json::json!({
        "cc_sends_checked": s.cc_sends_checked, "losses": s.losses, "congestion_limited_seen": s.congestion_limited_seen,
        "cc": [format!("{:?}", sc.server.cc), format!("{:?}", sc.clients[0].endpoint.cc)],
        "faults": {"dropped": f.dropped, "dup": f.duplicated, "delayed": f.delayed},
    }));
    Ok(())
}

pub const CFG: GenCfg = GenCfg {
    max_clients: 1,
    max_streams: 3,
    max_bytes: 200_000,
    faults: FaultProfile::Lossy,
    small_windows_pct: 5,
    aborts: false,
    idle_ms: (2_000, 10_000),
    cap_ms: 15_000,
    server_initiated: true,
};

pub fn subs() -> Vec<Box<dyn SubCheck>> {
    vec![Box::new(PropCheck::<Scenario, _> {
        name: "cwnd_e2e",
        cases: |t| t.pick(1_200, 80_000),
        strategy: |_t: Tier| gen::with_retry(gen::scenario(CFG)),
        oracle,
        max_shrink_iters: 400,
    })]
}
