//! C11 — no traffic amplification towards unvalidated or unknown peers.

use crate::{
    facts::facts,
    gen::{self, FaultProfile, GenCfg},
    net::NetRec,
    run::{self, Outcome},
    scenario::*,
    wire::{parse_datagram, PktType},
};
use proptest::prelude::*;
use std::{collections::HashMap, net::SocketAddr};
use vcore::{CaseResult, EnumCheck, Fail, Obs, PropCheck, SubCheck, Tier};

#[derive(Default, Debug)]
pub struct Summary {
    pub amplification_limited: bool,
    pub stray_replies: usize,
    pub resets: usize,
    pub version_negotiations: usize,
    pub initial_datagrams: usize,
    pub server_datagrams_before_validation: usize,
    pub migrated_addresses: usize,
    pub server_datagrams_to_unvalidated_migrated: usize,
    pub migrated_at_limit: bool,
}

const CID_LEN: usize = 16;

/// does the datagram (as sent) contain a packet of the given type?
fn contains(n: &NetRec, ty: PktType) -> bool {
    parse_datagram(&n.payload, CID_LEN).iter().any(|h| h.ty == ty && h.version == 1)
}

pub fn check_amplification(out: &Outcome, obs: &mut Obs) -> Result<Summary, Fail> {
    let mut sum = Summary::default();
    let server = out.server_addr;
    let clients: Vec<SocketAddr> = out.client_addrs.clone();

    // ---- clients pad every datagram that carries an Initial packet to >= 1200 bytes
    for n in &out.net {
        if n.injected || !clients.contains(&n.src) {
            continue;
        }
        if contains(n, PktType::Initial) {
            sum.initial_datagrams += 1;
            if n.len < 1200 {
                return Err(Fail::new(
                    "c11:client-initial-below-1200",
                    format!("client {} sent a datagram of {} bytes carrying an Initial packet at t={}us (must be at least 1200)", n.src, n.len, n.t_us),
                ));
            }
        }
    }

    // ---- 3x limit towards each client address until validation
    // (a) the address a client connects from: validated by the first undamaged datagram from it that carries a Handshake packet;
    // (b) an address a client moves to later (NAT rebinding / migration): validated when the server has processed a
    //     PATH_RESPONSE that arrived from it (RFC 9000 8.2, 9.3)
    let mut targets: Vec<(SocketAddr, u64, bool)> = vec![];
    // every address client i has used
    let addrs_of = |i: usize| -> Vec<SocketAddr> {
        std::iter::once(clients[i]).chain(out.rebinds.iter().filter(|(_, c, _)| *c == i).map(|(_, _, a)| *a)).collect()
    };
    // first instant at which the server processed (= authenticated) a Handshake packet that arrived from one of `addrs`
    // (a datagram damaged in its leading Initial packet can still carry an undamaged Handshake packet)
    let handshake_processed = |addrs: &[SocketAddr]| -> u64 {
        let mut last_remote: Option<SocketAddr> = None;
        for r in out.recs.iter().filter(|r| r.ep == 0) {
            match &r.ev {
                crate::rec::Ev::RxDatagram { remote, .. } => last_remote = Some(*remote),
                crate::rec::Ev::Rx { space: crate::rec::Space::Handshake, .. } if last_remote.map(|a| addrs.contains(&a)).unwrap_or(false) => return r.t_us,
                _ => {}
            }
        }
        u64::MAX
    };
    for (i, c) in clients.iter().enumerate() {
        // (a Handshake packet proves that the client processed the server's Initial, which was sent to this address: it
        // validates this address from whichever address the client sends it, RFC 9000 8.1)
        let mine = addrs_of(i);
        let t_valid = out
            .net
            .iter()
            .filter(|n| mine.contains(&n.src) && n.dst == server && n.intact && !n.deliveries_us.is_empty() && contains(n, PktType::Handshake))
            .map(|n| n.deliveries_us[0])
            .min()
            .unwrap_or(u64::MAX)
            .min(handshake_processed(&mine));
        targets.push((*c, t_valid, false));
    }
    for (_, owner, a) in &out.rebinds {
        let mut last_remote: Option<SocketAddr> = None;
        let mut t_valid = u64::MAX;
        for r in out.recs.iter().filter(|r| r.ep == 0) {
            match &r.ev {
                crate::rec::Ev::RxDatagram { remote, .. } => last_remote = Some(*remote),
                crate::rec::Ev::Rx { frames: Ok(fr), .. } if last_remote == Some(*a) && fr.iter().any(|f| matches!(f, crate::wire::WFrame::PathResponse(_))) => {
                    t_valid = r.t_us;
                    break;
                }
                _ => {}
            }
        }
        // the connection may have *started* from this address (everything sent before the move was lost): then it is the
        // handshake address and rule (a) applies
        let started_here = out.recs.iter().any(|r| r.ep == 0 && matches!(&r.ev, crate::rec::Ev::ConnStarted { remote, .. } if remote == a));
        if started_here {
            let t_hs = out
                .net
                .iter()
                .filter(|n| n.src == *a && n.dst == server && n.intact && !n.deliveries_us.is_empty() && contains(n, PktType::Handshake))
                .map(|n| n.deliveries_us[0])
                .min()
                .unwrap_or(u64::MAX);
            // (from whichever of the client's addresses the Handshake packet came: it proves receipt of what was sent here)
            t_valid = t_valid.min(t_hs).min(handshake_processed(&addrs_of(*owner)));
        }
        targets.push((*a, t_valid, true));
    }
    // hashes of the datagrams sent by connections of the server (not by the endpoint itself)
    let conn_sent: std::collections::HashSet<u64> = out
        .recs
        .iter()
        .filter(|r| r.ep == 0 && r.conn != u64::MAX)
        .filter_map(|r| match &r.ev {
            crate::rec::Ev::TxDatagram { hash, .. } => Some(*hash),
            _ => None,
        })
        .collect();
    for (c, t_valid, migrated) in &targets {
        let (c, t_valid) = (c, *t_valid);
        if *migrated {
            sum.migrated_addresses += 1;
        }
        // arrivals at the server from that address: (time, bytes), all copies, damaged ones included (over-count => sound)
        let mut arrivals: Vec<(u64, u64)> = out
            .net
            .iter()
            .filter(|n| n.src == *c && n.dst == server)
            .flat_map(|n| n.deliveries_us.iter().map(move |d| (*d, n.len as u64)))
            .collect();
        arrivals.sort();
        let mut tx = 0u64;
        // the implementation's own book-keeping (credit that saturates at zero), replayed in the order in which the server
        // itself saw its datagrams (record order, not time stamps: a probe sent at the very instant a datagram arrives is
        // sent before it is credited); used only to tell the known "overshoot is forgotten" finding from any other way of
        // exceeding the limit. replica[k] = (credit before the k-th datagram to this address, credit when its burst started)
        let replay_credit = |from: &[SocketAddr]| -> Vec<(u64, u64)> {
            let mut v = vec![];
            let mut allowance = 0u64;
            let mut burst: (u64, u64) = (u64::MAX, 0);
            for r in out.recs.iter().filter(|r| r.ep == 0) {
                match &r.ev {
                    crate::rec::Ev::RxDatagram { remote, len, .. } if from.contains(remote) => allowance += 3 * *len as u64,
                    crate::rec::Ev::TxDatagram { remote, len, .. } if remote == c && r.conn != u64::MAX => {
                        if burst.0 != r.t_us {
                            burst = (r.t_us, allowance);
                        }
                        v.push((allowance, burst.1));
                        allowance = allowance.saturating_sub(*len as u64);
                    }
                    _ => {}
                }
            }
            v
        };
        let replica = replay_credit(&[*c]);
        // the same counter when datagrams from the client's other addresses are credited to this path too (second finding)
        let owner_of_c = clients.iter().position(|a| a == c).or_else(|| out.rebinds.iter().find(|(_, _, a)| a == c).map(|(_, i, _)| *i));
        let replica_all = replay_credit(&owner_of_c.map(|i| addrs_of(i)).unwrap_or_else(|| vec![*c]));
        let mut k = 0usize;
        // only what a *connection* sends is subject to this limit: once the server's connection is gone (idle timeout,
        // close), packets from the client are answered by the endpoint with stateless resets, which have a rule of their
        // own (smaller than the trigger, RFC 9000 10.3.3)
        for n in out.net.iter().filter(|n| n.src == server && n.dst == *c && conn_sent.contains(&n.hash)) {
            if n.t_us >= t_valid {
                break;
            }
            let rx: u64 = arrivals.iter().take_while(|(t, _)| *t <= n.t_us).map(|(_, b)| *b).sum();
            let (allowance, burst_credit) = replica.get(k).copied().unwrap_or((0, 0));
            let (allowance_all, burst_all) = replica_all.get(k).copied().unwrap_or((0, 0));
            k += 1;
            sum.server_datagrams_before_validation += 1;
            if *migrated {
                sum.server_datagrams_to_unvalidated_migrated += 1;
            }
            if tx >= 3 * rx {
                // bytes the server received from the *other* addresses of the same client by now
                let owner = clients.iter().position(|a| a == c).or_else(|| out.rebinds.iter().find(|(_, _, a)| a == c).map(|(_, i, _)| *i));
                let rx_other: u64 = match owner {
                    Some(i) => {
                        let mine = addrs_of(i);
                        out.net
                            .iter()
                            .filter(|m| m.src != *c && mine.contains(&m.src) && m.dst == server)
                            .flat_map(|m| m.deliveries_us.iter().map(move |d| (*d, m.len as u64)))
                            .filter(|(t, _)| *t <= n.t_us)
                            .map(|(_, b)| b)
                            .sum()
                    }
                    None => 0,
                };
                let key = if allowance > 0 || burst_credit > 0 {
                    "c11:amplification-limit-exceeded:overshoot-forgotten"
                } else if rx_other > 0 && (tx < 3 * (rx + rx_other) + 1500 || allowance_all > 0 || burst_all > 0) {
                    "c11:amplification-limit-exceeded:credit-from-other-address-during-handshake"
                } else {
                    "c11:amplification-limit-exceeded"
                };
                if !obs.step_over_known(key) {
                    return Err(Fail::new(
                        key,
                        format!(
                            "server started sending a datagram of {} bytes to the unvalidated address {} at t={}us although it had already sent {} bytes there and received only {} bytes from it (limit 3x = {})",
                            n.len, c, n.t_us, tx, rx, 3 * rx
                        ),
                    ));
                }
            }
            if tx + 1500 >= 3 * rx {
                sum.amplification_limited = true;
                if *migrated {
                    sum.migrated_at_limit = true;
                }
            }
            tx += n.len as u64;
        }
    }

    // ---- replies to datagrams that belong to no connection (every address that is not a client, in both directions)
    let endpoints: Vec<SocketAddr> = std::iter::once(server).chain(clients.iter().copied()).chain(out.rebinds.iter().map(|(_, _, a)| *a)).collect();
    let mut by_pair: HashMap<(SocketAddr, SocketAddr), Vec<&NetRec>> = HashMap::new();
    for n in &out.net {
        // (endpoint, stranger)
        if endpoints.contains(&n.dst) && !endpoints.contains(&n.src) {
            by_pair.entry((n.dst, n.src)).or_default().push(n);
        } else if endpoints.contains(&n.src) && !endpoints.contains(&n.dst) {
            by_pair.entry((n.src, n.dst)).or_default().push(n);
        }
    }
    for ((ep, stranger), recs) in &by_pair {
        // triggers delivered to the endpoint, not yet answered
        let mut triggers: Vec<(u64, usize, bool)> = vec![]; // (arrival, len, is_vn)
        let mut used = vec![];
        for n in recs {
            if n.src == *stranger {
                let is_vn = n.payload.len() >= 5 && n.payload[0] & 0x80 != 0 && n.payload[1..5] == [0, 0, 0, 0];
                for d in &n.deliveries_us {
                    triggers.push((*d, n.len, is_vn));
                    used.push(false);
                }
            }
        }
        for n in recs.iter().filter(|n| n.src == *ep) {
            sum.stray_replies += 1;
            let first = n.payload.first().copied().unwrap_or(0);
            let is_vn_reply = first & 0x80 != 0 && n.payload.len() >= 5 && n.payload[1..5] == [0, 0, 0, 0];
            let is_short = first & 0x80 == 0;
            // pair with the largest unused trigger that arrived before the reply (most favourable pairing => sound)
            let cand = triggers
                .iter()
                .enumerate()
                .filter(|(i, (t, _, _))| !used[*i] && *t <= n.t_us)
                .max_by_key(|(_, (_, len, _))| *len)
                .map(|(i, v)| (i, *v));
            let Some((i, (_, tlen, t_is_vn))) = cand else {
                return Err(Fail::new(
                    "c11:reply-without-trigger",
                    format!("endpoint {ep} sent a datagram of {} bytes to {stranger} (no connection) at t={}us without an unanswered incoming datagram from that address", n.len, n.t_us),
                ));
            };
            used[i] = true;
            if is_vn_reply {
                sum.version_negotiations += 1;
                if t_is_vn {
                    return Err(Fail::new("c11:vn-in-reply-to-vn", format!("endpoint {ep} answered a Version Negotiation packet from {stranger} with a Version Negotiation packet (t={}us)", n.t_us)));
                }
                if tlen < 1200 {
                    return Err(Fail::new("c11:vn-for-small-datagram", format!("endpoint {ep} sent Version Negotiation ({} bytes) in reply to a datagram of only {tlen} bytes from {stranger} (t={}us)", n.len, n.t_us)));
                }
                if n.len > tlen {
                    return Err(Fail::new("c11:vn-larger-than-trigger", format!("endpoint {ep} sent a Version Negotiation packet of {} bytes in reply to a datagram of {tlen} bytes", n.len)));
                }
            } else if is_short {
                sum.resets += 1;
                if n.len >= tlen {
                    return Err(Fail::new(
                        "c11:stateless-reset-not-smaller",
                        format!("endpoint {ep} sent a stateless reset of {} bytes to {stranger} in reply to a datagram of {tlen} bytes (t={}us): it must be strictly smaller", n.len, n.t_us),
                    ));
                }
            } else {
                // any other reply to a stranger (e.g. a connection attempt answered): never larger than 3x the trigger
                if n.len > 3 * tlen {
                    return Err(Fail::new("c11:reply-amplified", format!("endpoint {ep} sent {} bytes to {stranger} in reply to {tlen} bytes", n.len)));
                }
            }
        }
    }
    Ok(sum)
}

pub fn oracle(sc: &Scenario, obs: &mut Obs) -> CaseResult {
    let out = run::run(sc);
    let f = facts(&out);
    obs.units = out.net.len() as u64;
    obs.class_if(out.capped, "capped");
    let s = check_amplification(&out, obs)?;
    obs.class_if(s.amplification_limited, "server-at-amplification-limit");
    obs.class_if(s.resets > 0, "stateless-reset-sent");
    obs.class_if(s.version_negotiations > 0, "version-negotiation-sent");
    obs.class_if(f.handshakes_completed >= 2, "handshake-completed");
    obs.class_if(f.pto_probes > 0, "pto-probes");
    obs.class_if(!sc.strays.is_empty(), "stray-datagrams");
    obs.class_if(s.migrated_addresses > 0, "client-moved-to-new-address");
    obs.class_if(s.migrated_addresses > 1, "client-moved-twice");
    obs.class_if(s.server_datagrams_to_unvalidated_migrated > 0, "server-sent-to-unvalidated-migrated-address");
    obs.class_if(s.migrated_at_limit, "migrated-address-at-amplification-limit");
    obs.nontrivial(s.amplification_limited || s.stray_replies > 0);
    obs.sample = Some(serde_json::json!({
        "tape_up": sc.net.tape_up.iter().take(12).collect::<Vec<_>>(), "tape_down": sc.net.tape_down.iter().take(12).collect::<Vec<_>>(),
        "strays": sc.strays.iter().take(4).collect::<Vec<_>>(),
        "server_datagrams_before_validation": s.server_datagrams_before_validation, "at_limit": s.amplification_limited,
        "resets": s.resets, "version_negotiations": s.version_negotiations, "client_initial_datagrams": s.initial_datagrams,
    }));
    Ok(())
}

pub const CFG: GenCfg = GenCfg {
    max_clients: 2,
    max_streams: 1,
    max_bytes: 3_000,
    faults: FaultProfile::FinitePrefix,
    small_windows_pct: 5,
    aborts: false,
    idle_ms: (1_000, 4_000),
    cap_ms: 8_000,
    server_initiated: false,
};

fn stray() -> impl Strategy<Value = Stray> {
    (
        0u32..400_000,
        prop::bool::weighted(0.8),
        prop_oneof![Just(StrayKind::Random), Just(StrayKind::ShortUnknownDcid), Just(StrayKind::LongUnknownVersion), Just(StrayKind::VersionNegotiation), Just(StrayKind::GarbageInitial)],
        prop_oneof![
            3 => prop_oneof![Just(1u16), Just(20), Just(21), Just(22), Just(38), Just(39), Just(40), Just(41), Just(42), Just(43), Just(44), Just(1199), Just(1200), Just(1201), Just(1472)],
            2 => 1u16..100,
            2 => 1u16..1500,
        ],
        any::<u64>(),
    )
        .prop_map(|(at_us, to_server, kind, len, seed)| {
            // long-header strays only elicit anything at >= 1200 bytes: move most of them to that boundary
            let len = if matches!(kind, StrayKind::LongUnknownVersion | StrayKind::VersionNegotiation | StrayKind::GarbageInitial) && seed % 4 != 0 {
                [1199u16, 1200, 1201, 1250, 1472][(seed % 5) as usize]
            } else {
                len
            };
            Stray { at_us, to_server, kind, len, seed }
        })
}

/// handshake-centred scenarios with heavy faults on the first datagrams and stray datagrams
pub fn scenario() -> impl Strategy<Value = Scenario> {
    let heavy = prop::collection::vec(
        prop_oneof![4 => Just(Fault::Pass), 4 => Just(Fault::Drop), 1 => (0u8..3).prop_map(Fault::Dup), 1 => (1u16..60).prop_map(Fault::Delay)],
        0..24,
    );
    (gen::scenario(CFG), heavy.clone(), heavy, prop::collection::vec(stray(), 0..6), prop::bool::weighted(0.3)).prop_map(|(mut sc, up, down, strays, client_silent)| {
        sc.net.tape_up = up;
        sc.net.tape_down = down;
        sc.net.tape_repeat = false;
        if client_silent {
            // the client goes silent after a few datagrams: the server keeps probing an unvalidated address
            sc.net.blackholes.push(Blackhole { from_ms: (sc.net.delay_us as u64 / 1000) * 2 + 1, to_ms: u64::MAX, up: true, down: false });
        }
        sc.strays = strays;
        sc.stateless_reset = true;
        sc
    })
}

/// established connections whose client moves to fresh addresses (once, or several times in quick succession, so that an
/// address is abandoned before it answered the server's PATH_CHALLENGE) under loss
pub fn migration_scenario() -> impl Strategy<Value = Scenario> {
    const MCFG: GenCfg = GenCfg { max_clients: 1, max_streams: 2, max_bytes: 60_000, faults: FaultProfile::Lossy, small_windows_pct: 5, aborts: false, idle_ms: (3_000, 8_000), cap_ms: 20_000, server_initiated: true };
    let moves = prop::collection::vec((60u32..1_500, prop_oneof![3 => 0u32..8, 2 => 8u32..120, 1 => 120u32..1_000]), 1..4);
    // in a third of the cases the new address goes silent right after its first datagrams and the server application
    // closes the connection while the path is still unvalidated
    let silence_and_close = prop_oneof![2 => Just(None), 1 => (0u32..40, 1_000u32..400_000).prop_map(Some)];
    (gen::scenario(MCFG), moves, prop::collection::vec(prop_oneof![(1_000u32..300_000).prop_map(WStep::PauseUs), (1u32..3_000).prop_map(WStep::Send)], 0..8), silence_and_close).prop_map(|(mut sc, moves, trickle, silence)| {
        // first move at an absolute instant, the following ones after short gaps
        let mut t = 0u32;
        sc.rebinds = moves
            .into_iter()
            .enumerate()
            .map(|(i, (first, gap))| {
                t = if i == 0 { first } else { t + gap };
                (0u8, t)
            })
            .collect();
        // a low-rate tail keeps the client talking from its new addresses
        if let Some(s) = sc.clients[0].conn.streams.first_mut() {
            s.fwd.steps.extend(trickle);
        }
        sc.clients[0].conn.close_code = None;
        sc.net.tape_repeat = false;
        sc.net.max_udp_payload = 65_000;
        if let Some((gap_ms, close_after_us)) = silence {
            let last_move_ms = sc.rebinds.last().map(|(_, t)| *t as u64).unwrap_or(0);
            sc.net.blackholes.push(Blackhole { from_ms: last_move_ms + gap_ms as u64, to_ms: u64::MAX, up: true, down: false });
            // (relative to the server's accept, which is a few round trips after the start)
            sc.clients[0].conn.server_close = Some(((last_move_ms as u32).saturating_mul(1000).saturating_add(close_after_us), 7));
        }
        sc
    })
}

// ---- exhaustive single and adjacent-pair faults over the first datagrams of a fixed handshake ----

const ENUM_N: u64 = 14;
const KINDS: [Fault; 3] = [Fault::Drop, Fault::Dup(1), Fault::Delay(30)];

fn base_scenario(shape: u64) -> Scenario {
    let stream = StreamScript {
        initiator: Side::Client,
        bidi: true,
        fwd: WriterScript { steps: vec![WStep::Send(2000)], end: WEnd::Finish },
        fwd_reader: ReaderScript::default(),
        rev: Some(WriterScript { steps: vec![WStep::Send(2000)], end: WEnd::Finish }),
        rev_reader: Some(ReaderScript::default()),
    };
    let mut client = EndpointCfg::default();
    let mut server = EndpointCfg::default();
    client.limits.idle_timeout_ms = Some(3000);
    server.limits.idle_timeout_ms = Some(3000);
    if shape == 1 {
        client.mtu = (1228, 1500, 1500);
    }
    if shape == 2 {
        server.limits.initial_rtt_ms = Some(5);
        client.limits.initial_rtt_ms = Some(5);
    }
    Scenario {
        seed: 7,
        server,
        clients: vec![ClientCfg { endpoint: client, conn: ConnScript { streams: vec![stream], close_code: Some(0), datagrams: vec![], server_close: None } }],
        net: NetCfg::default(),
        cap_ms: 8_000,
        strays: vec![],
        stateless_reset: true,
        rebinds: vec![],
        attacks: vec![],
        evil: None,
        tp: None,
        key_update_after: None,
        tls_aes256: false,
    }
}

fn enum_total(_t: Tier) -> u64 {
    // shapes x directions x index x kind, plus adjacent pairs of drops
    3 * (2 * ENUM_N * 3 + 2 * (ENUM_N - 1))
}

fn enum_case(_t: Tier, idx: u64) -> Scenario {
    let per_shape = 2 * ENUM_N * 3 + 2 * (ENUM_N - 1);
    let shape = idx / per_shape;
    let mut i = idx % per_shape;
    let mut sc = base_scenario(shape);
    if i < 2 * ENUM_N * 3 {
        let dir = if i % 2 == 0 { Dir::Up } else { Dir::Down };
        i /= 2;
        let k = i % ENUM_N;
        let kind = KINDS[(i / ENUM_N) as usize];
        sc.net.overrides.push((dir, k as u32, kind));
    } else {
        i -= 2 * ENUM_N * 3;
        let dir = if i % 2 == 0 { Dir::Up } else { Dir::Down };
        let k = i / 2;
        sc.net.overrides.push((dir, k as u32, Fault::Drop));
        sc.net.overrides.push((dir, k as u32 + 1, Fault::Drop));
    }
    sc
}

pub fn subs() -> Vec<Box<dyn SubCheck>> {
    vec![
        Box::new(EnumCheck::<Scenario> { name: "handshake_fault_enum", total: enum_total, case: enum_case, oracle }),
        Box::new(PropCheck::<Scenario, _> {
            name: "amplification_generated",
            cases: |t| t.pick(3_000, 150_000),
            strategy: |_t: Tier| scenario(),
            oracle,
            max_shrink_iters: 400,
        }),
        Box::new(PropCheck::<Scenario, _> {
            name: "migration_generated",
            cases: |t| t.pick(1_500, 80_000),
            strategy: |_t: Tier| migration_scenario(),
            oracle,
            max_shrink_iters: 400,
        }),
    ]
}
