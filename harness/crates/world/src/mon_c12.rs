//! C12 — what an endpoint sends on a stream and at close is self-consistent.

use crate::{
    facts::facts,
    gen::{self, FaultProfile, GenCfg},
    rec::Ev,
    run::{self, Outcome},
    scenario::Scenario,
    wire::WFrame,
};
use std::collections::{BTreeMap, HashMap};
use vcore::{CaseResult, Fail, Obs, PropCheck, SubCheck, Tier};

#[derive(Default)]
struct StreamState {
    /// highest end offset of any STREAM frame sent
    max_end: u64,
    /// announced final size (by FIN or RESET_STREAM) and where it was first announced
    final_size: Option<(u64, &'static str, u64)>,
    reset_at_pn: Option<u64>,
    /// first-transmission segment boundaries: start -> end
    segments: BTreeMap<u64, u64>,
    resegmented: bool,
    abort_with_outstanding: bool,
}

#[derive(Default)]
pub struct Summary {
    pub resegmented: bool,
    pub abort_with_outstanding: bool,
    pub packets_during_closing: usize,
    pub close_seen: bool,
}

pub fn check_consistency(out: &Outcome, obs: &mut Obs) -> Result<Summary, Fail> {
    let mut sum = Summary::default();
    let mut streams: HashMap<(usize, u64, u64), StreamState> = HashMap::new();
    // (ep, conn) -> (time of close, index in recs)
    let mut closed: HashMap<(usize, u64), (u64, usize)> = HashMap::new();
    // the datagram carrying the close packet: (ep, conn) -> (hash, remote)
    let mut close_datagram: HashMap<(usize, u64), (u64, std::net::SocketAddr, u64)> = HashMap::new();

    for (i, r) in out.recs.iter().enumerate() {
        if r.conn == u64::MAX {
            continue;
        }
        let key = (r.ep, r.conn);
        match &r.ev {
            Ev::Tx { frames: Ok(frames), streams: checks, space, pn, .. } => {
                if let Some((t, _)) = closed.get(&key) {
                    let only_close = frames.iter().all(|f| matches!(f, WFrame::ConnectionClose { .. } | WFrame::Padding(_)));
                    // the close packet may be built for several packet number spaces at the same instant
                    if !(only_close && r.t_us == *t) {
                        return Err(Fail::new(
                            "c12:packet-after-close",
                            format!("endpoint {} conn {}: built a new packet ({space:?} pn {pn}, frames {:?}) at t={}us after having sent CONNECTION_CLOSE at t={}us", r.ep, r.conn, short(frames), r.t_us, t),
                        ));
                    }
                }
                for (fi, f) in frames.iter().enumerate() {
                    match f {
                        WFrame::Stream { id, off, len, fin, .. } => {
                            if let Some(c) = checks.iter().find(|c| c.frame == fi) {
                                if let Some(bad) = c.bad_at {
                                    return Err(Fail::new(
                                        "c12:stream-bytes-differ",
                                        format!("endpoint {} conn {} {space:?} pn {pn}: STREAM frame for stream {id} [{off}, {}) carries at offset {bad} a byte different from the one the application wrote there", r.ep, r.conn, off + len),
                                    ));
                                }
                            }
                            let st = streams.entry((r.ep, r.conn, *id)).or_default();
                            let end = off + len;
                            if let Some(rp) = st.reset_at_pn {
                                // known finding on the pinned tree: the empty "stream opened" notification (offset 0, length 0,
                                // no FIN, locally initiated bidirectional stream) is retransmitted regardless of the stream's state
                                let open_notify = *off == 0 && *len == 0 && !*fin && (*id & 2 == 0) && ((*id & 1 == 0) == (r.ep != 0));
                                let key = if open_notify { "c12:stream-after-reset:empty-open-notification" } else { "c12:stream-after-reset" };
                                if !obs.step_over_known(key) {
                                    return Err(Fail::new(
                                        key,
                                        format!("endpoint {} conn {} pn {pn}: STREAM frame for stream {id} [{off}, {end}) sent after RESET_STREAM (pn {rp})", r.ep, r.conn),
                                    ));
                                }
                            }
                            if let Some((fsz, by, at)) = st.final_size {
                                if end > fsz {
                                    return Err(Fail::new(
                                        "c12:data-beyond-final-size",
                                        format!("endpoint {} conn {} pn {pn}: STREAM frame for stream {id} ends at {end}, beyond the final size {fsz} announced by {by} in pn {at}", r.ep, r.conn),
                                    ));
                                }
                                if *fin && end != fsz {
                                    return Err(Fail::new(
                                        "c12:final-size-changed",
                                        format!("endpoint {} conn {} pn {pn}: FIN for stream {id} at {end}, but {by} in pn {at} announced final size {fsz}", r.ep, r.conn),
                                    ));
                                }
                            } else if *fin {
                                if end < st.max_end {
                                    return Err(Fail::new(
                                        "c12:final-size-below-sent",
                                        format!("endpoint {} conn {} pn {pn}: FIN for stream {id} announces final size {end}, but data up to {} was already sent", r.ep, r.conn, st.max_end),
                                    ));
                                }
                                st.final_size = Some((end, "FIN", *pn));
                            }
                            // segmentation bookkeeping (non-triviality rule)
                            if *len > 0 {
                                if *off < st.max_end {
                                    // retransmission: same boundaries as some earlier segment?
                                    if st.segments.get(off) != Some(&end) {
                                        st.resegmented = true;
                                    }
                                } else {
                                    st.segments.insert(*off, end);
                                }
                            }
                            st.max_end = st.max_end.max(end);
                        }
                        WFrame::ResetStream { id, final_size, .. } => {
                            let st = streams.entry((r.ep, r.conn, *id)).or_default();
                            if let Some((fsz, by, at)) = st.final_size {
                                if *final_size != fsz {
                                    return Err(Fail::new(
                                        "c12:final-size-changed",
                                        format!("endpoint {} conn {} pn {pn}: RESET_STREAM for stream {id} announces final size {final_size}, but {by} in pn {at} announced {fsz}", r.ep, r.conn),
                                    ));
                                }
                            } else {
                                if *final_size < st.max_end {
                                    return Err(Fail::new(
                                        "c12:final-size-below-sent",
                                        format!("endpoint {} conn {} pn {pn}: RESET_STREAM for stream {id} announces final size {final_size}, but data up to {} was already sent", r.ep, r.conn, st.max_end),
                                    ));
                                }
                                st.final_size = Some((*final_size, "RESET_STREAM", *pn));
                            }
                            if st.reset_at_pn.is_none() {
                                st.reset_at_pn = Some(*pn);
                                st.abort_with_outstanding |= st.max_end > 0;
                            }
                        }
                        WFrame::StreamDataBlocked { id, .. } => {
                            if let Some(st) = streams.get(&(r.ep, r.conn, *id)) {
                                if let Some(rp) = st.reset_at_pn {
                                    return Err(Fail::new(
                                        "c12:blocked-after-reset",
                                        format!("endpoint {} conn {} pn {pn}: STREAM_DATA_BLOCKED for stream {id} sent after RESET_STREAM (pn {rp})", r.ep, r.conn),
                                    ));
                                }
                            }
                        }
                        WFrame::ConnectionClose { .. } => {
                            closed.entry(key).or_insert((r.t_us, i));
                            sum.close_seen = true;
                        }
                        _ => {}
                    }
                }
            }
            Ev::Rx { frames: Ok(frames), .. } => {
                // peer's STOP_SENDING while data is outstanding (non-triviality rule)
                for f in frames {
                    if let WFrame::StopSending { id, .. } = f {
                        if let Some(st) = streams.get_mut(&(r.ep, r.conn, *id)) {
                            st.abort_with_outstanding |= st.max_end > 0 && st.final_size.is_none();
                        }
                    }
                }
            }
            Ev::TxDatagram { remote, hash, .. } => {
                if let Some((t, _)) = closed.get(&key) {
                    if r.t_us == *t {
                        // last datagram built at the instant of the close = the close datagram
                        close_datagram.insert(key, (*hash, *remote, *t));
                    } else {
                        return Err(Fail::new(
                            "c12:datagram-built-after-close",
                            format!("endpoint {} conn {}: built a new datagram at t={}us after CONNECTION_CLOSE at t={}us", r.ep, r.conn, r.t_us, t),
                        ));
                    }
                }
            }
            _ => {}
        }
    }

    // on the wire: after the close datagram, only byte-identical copies, and only in response to arrivals
    for ((ep, conn), (hash, remote, t_close)) in &close_datagram {
        let local = if *ep == 0 { out.server_addr } else { out.client_addrs[*ep - 1] };
        let mut seen_close = false;
        let mut copies = 0usize;
        for n in &out.net {
            if n.injected || n.src != local || n.dst != *remote || n.t_us < *t_close {
                continue;
            }
            if n.hash == *hash {
                if seen_close {
                    copies += 1;
                }
                seen_close = true;
            } else if seen_close {
                return Err(Fail::new(
                    "c12:other-datagram-after-close",
                    format!("endpoint {ep} conn {conn}: sent a datagram of {} bytes at t={}us that is not a copy of its CONNECTION_CLOSE datagram (closed at t={}us)", n.len, n.t_us, t_close),
                ));
            }
        }
        // arrivals at this endpoint from that peer after the close
        let arrivals: usize = out
            .net
            .iter()
            .filter(|n| n.src == *remote && n.dst == local)
            .map(|n| n.deliveries_us.iter().filter(|d| **d >= *t_close).count())
            .sum();
        sum.packets_during_closing += arrivals;
        if copies > arrivals {
            return Err(Fail::new(
                "c12:close-copies-without-trigger",
                format!("endpoint {ep} conn {conn}: re-sent its CONNECTION_CLOSE datagram {copies} times after t={t_close}us although only {arrivals} datagrams arrived from the peer in that period (copies may only answer incoming packets)"),
            ));
        }
    }

    sum.resegmented = streams.values().any(|s| s.resegmented);
    sum.abort_with_outstanding = streams.values().any(|s| s.abort_with_outstanding);
    Ok(sum)
}

fn short(frames: &[WFrame]) -> Vec<String> {
    frames.iter().take(6).map(|f| format!("{f:?}").chars().take(60).collect()).collect()
}

pub fn oracle(sc: &Scenario, obs: &mut Obs) -> CaseResult {
    let out = run::run(sc);
    let f = facts(&out);
    obs.units = out.recs.len() as u64;
    obs.class_if(out.capped, "capped");
    if !f.wire_errors.is_empty() {
        return Err(Fail::new("c12:wire-undecodable", f.wire_errors[0].clone()));
    }
    for (key, msg) in &out.app.violations {
        if key.starts_with("stream-id") {
            return Err(Fail::new(format!("c12:{key}"), msg.clone()));
        }
    }
    let s = check_consistency(&out, obs)?;
    obs.class_if(s.resegmented, "retransmitted-in-different-segmentation");
    obs.class_if(s.abort_with_outstanding, "reset-or-stop-with-data-outstanding");
    obs.class_if(s.close_seen, "connection-close-sent");
    obs.class_if(s.packets_during_closing > 0, "arrivals-during-closing");
    obs.class_if(f.resets > 0, "reset");
    obs.class_if(f.stop_sendings > 0, "stop-sending");
    obs.nontrivial((s.resegmented && s.abort_with_outstanding) || (s.close_seen && s.packets_during_closing > 0 && s.resegmented));
    obs.sample = Some(serde_json::json!({
        "streams": sc.clients.iter().map(|c| c.conn.streams.len()).collect::<Vec<_>>(),
        "resegmented": s.resegmented, "abort_with_outstanding": s.abort_with_outstanding,
        "arrivals_during_closing": s.packets_during_closing,
        "faults": {"dropped": f.dropped, "dup": f.duplicated, "delayed": f.delayed, "mtu_dropped": f.mtu_dropped},
        "resets": f.resets, "stop_sendings": f.stop_sendings,
    }));
    Ok(())
}

pub const CFG: GenCfg = GenCfg {
    max_clients: 2,
    max_streams: 5,
    max_bytes: 60_000,
    faults: FaultProfile::Lossy,
    small_windows_pct: 40,
    aborts: true,
    idle_ms: (2_000, 10_000),
    cap_ms: 20_000,
    server_initiated: true,
};

pub fn subs() -> Vec<Box<dyn SubCheck>> {
    vec![
        Box::new(vcore::EnumCheck::<Scenario> { name: "consistency_single_fault_enum", total: gen::single_fault_total, case: gen::single_fault_case, oracle }),
        Box::new(PropCheck::<Scenario, _> {
        name: "consistency_generated",
        cases: |t| t.pick(2_000, 120_000),
        strategy: |_t: Tier| gen::scenario(CFG),
        oracle,
        max_shrink_iters: 400,
    })]
}
