//! C13 — connection IDs are issued, routed and retired consistently.

use crate::{
    facts::facts,
    gen::{self, FaultProfile, GenCfg},
    net::Fate,
    rec::{Ev, Space},
    run::{self, Outcome},
    scenario::*,
    wire::WFrame,
};
use proptest::prelude::*;
use std::collections::{BTreeMap, BTreeSet, HashMap, HashSet};
use std::net::SocketAddr;
use vcore::{CaseResult, Fail, Obs, PropCheck, SubCheck, Tier};

#[derive(Default)]
struct Issuer {
    /// seq -> (cid, token, retire_prior_to)
    issued: BTreeMap<u64, (Vec<u8>, [u8; 16], u64)>,
    next_seq: u64,
    max_rpt: u64,
    retired_by_peer: BTreeSet<u64>,
    limit: Option<u64>,
    /// NEW_CONNECTION_ID received from the peer: seq -> cid
    received: BTreeMap<u64, Vec<u8>>,
    local_cid0: Vec<u8>,
    closed_at: Option<u64>,
    confirmed_at: Option<u64>,
    pending_retire: Vec<u64>,
    max_rx_pn: u64,
}

#[derive(Default, Debug)]
pub struct Summary {
    pub retired_and_replaced: bool,
    pub cid_frame_lost: bool,
    pub concurrent_multi_cid: bool,
    pub routed_checked: usize,
    pub new_cid_frames: usize,
    pub retire_frames: usize,
    pub rebinds: usize,
}

fn cid_len_of(sc: &Scenario, ep: usize) -> usize {
    let c = if ep == 0 { &sc.server.cid } else { &sc.clients[ep - 1].endpoint.cid };
    if c.len == 0 {
        16
    } else {
        c.len.clamp(4, 20) as usize
    }
}

pub fn check_cids(sc: &Scenario, out: &Outcome, _obs: &mut Obs) -> Result<Summary, Fail> {
    let mut sum = Summary::default();
    sum.rebinds = out.rebinds.len();
    let conn_client = out.server_conn_clients();
    let mut conns: HashMap<(usize, u64), Issuer> = HashMap::new();
    // all cids / tokens ever issued by an endpoint (across its connections)
    let mut ep_cids: HashMap<usize, HashMap<Vec<u8>, (u64, u64)>> = HashMap::new();
    let mut ep_tokens: HashMap<usize, HashSet<[u8; 16]>> = HashMap::new();
    // datagram hash -> packets inside: (space, pn, payload hash); and whether it carried NEW/RETIRE frames
    let mut cur: HashMap<(usize, u64), Vec<(Space, u64, u64, bool)>> = HashMap::new();
    let mut dgram: HashMap<u64, (usize, u64, Vec<(Space, u64, u64, bool)>)> = HashMap::new();
    // receiver side: processed packets (ep, conn) -> set of (pn, payload hash) in the application space, with time
    let mut processed: HashSet<(usize, u64, u64, u64)> = HashSet::new(); // (ep, conn, payload hash, pn)

    for (i, r) in out.recs.iter().enumerate() {
        if r.conn == u64::MAX {
            continue;
        }
        let key = (r.ep, r.conn);
        match &r.ev {
            Ev::ConnStarted { local_cid, .. } => {
                let c = conns.entry(key).or_default();
                c.local_cid0 = local_cid.clone();
                c.next_seq = 1;
                ep_cids.entry(r.ep).or_default().insert(local_cid.clone(), (r.conn, 0));
            }
            Ev::Params(p) => {
                conns.entry(key).or_default().limit = Some(p.active_connection_id_limit);
            }
            Ev::HandshakeConfirmed => {
                conns.entry(key).or_default().confirmed_at.get_or_insert(r.t_us);
            }
            Ev::Closed(_) => {
                conns.entry(key).or_default().closed_at.get_or_insert(r.t_us);
            }
            Ev::Tx { space, pn, frames: Ok(frames), hash, .. } => {
                let mut has_cid_frame = false;
                for f in frames {
                    match f {
                        WFrame::ConnectionClose { .. } => {
                            conns.entry(key).or_default().closed_at.get_or_insert(r.t_us);
                        }
                        WFrame::NewConnectionId { seq, retire_prior_to, cid, token } => {
                            has_cid_frame = true;
                            sum.new_cid_frames += 1;
                            let c = conns.entry(key).or_default();
                            if let Some((pc, pt, prpt)) = c.issued.get(seq) {
                                if pc != cid || pt != token {
                                    return Err(Fail::new(
                                        "c13:retransmission-differs",
                                        format!("endpoint {} conn {}: NEW_CONNECTION_ID seq {seq} re-sent in pn {pn} with a different connection id / reset token than first sent", r.ep, r.conn),
                                    ));
                                }
                                // retire_prior_to may have advanced meanwhile, never beyond the frame's own sequence number
                                if *retire_prior_to > *seq || *retire_prior_to < *prpt {
                                    return Err(Fail::new(
                                        "c13:retire-prior-to-beyond-seq",
                                        format!("endpoint {} conn {} pn {pn}: NEW_CONNECTION_ID seq {seq} re-sent with retire_prior_to {retire_prior_to} (first sent with {prpt})", r.ep, r.conn),
                                    ));
                                }
                                c.max_rpt = c.max_rpt.max(*retire_prior_to);
                                continue;
                            }
                            if *seq != c.next_seq {
                                return Err(Fail::new(
                                    "c13:sequence-not-consecutive",
                                    format!("endpoint {} conn {} pn {pn}: first NEW_CONNECTION_ID with sequence number {seq}, expected {} (consecutive)", r.ep, r.conn, c.next_seq),
                                ));
                            }
                            c.next_seq += 1;
                            if *retire_prior_to > *seq {
                                return Err(Fail::new(
                                    "c13:retire-prior-to-beyond-seq",
                                    format!("endpoint {} conn {} pn {pn}: NEW_CONNECTION_ID seq {seq} asks to retire prior to {retire_prior_to}", r.ep, r.conn),
                                ));
                            }
                            if *retire_prior_to < c.max_rpt {
                                return Err(Fail::new(
                                    "c13:retire-prior-to-decreased",
                                    format!("endpoint {} conn {} pn {pn}: NEW_CONNECTION_ID seq {seq} has retire_prior_to {retire_prior_to}, an earlier frame had {}", r.ep, r.conn, c.max_rpt),
                                ));
                            }
                            c.max_rpt = *retire_prior_to;
                            c.issued.insert(*seq, (cid.clone(), *token, *retire_prior_to));
                            // distinct values and tokens across everything this endpoint ever issued
                            if let Some((oc, os)) = ep_cids.entry(r.ep).or_default().insert(cid.clone(), (r.conn, *seq)) {
                                return Err(Fail::new(
                                    "c13:connection-id-reused",
                                    format!("endpoint {}: connection id {:02x?} issued as seq {seq} on conn {} was already issued as seq {os} on conn {oc}", r.ep, cid, r.conn),
                                ));
                            }
                            if !ep_tokens.entry(r.ep).or_default().insert(*token) {
                                return Err(Fail::new(
                                    "c13:reset-token-reused",
                                    format!("endpoint {} conn {}: stateless reset token of seq {seq} was already issued with another connection id", r.ep, r.conn),
                                ));
                            }
                            // never more unretired ids than the peer's active_connection_id_limit
                            let c = conns.get(&key).unwrap();
                            if let Some(limit) = c.limit {
                                let active = (0..c.next_seq).filter(|s| *s >= c.max_rpt && !c.retired_by_peer.contains(s)).count() as u64;
                                if active > limit {
                                    return Err(Fail::new(
                                        "c13:active-limit-exceeded",
                                        format!(
                                            "endpoint {} conn {} pn {pn}: after issuing seq {seq} (retire_prior_to {retire_prior_to}) {active} connection ids are unretired, the peer's active_connection_id_limit is {limit} (retired by the peer so far: {:?})",
                                            r.ep, r.conn, c.retired_by_peer
                                        ),
                                    ));
                                }
                                if active >= 2 {
                                    // (used for the non-triviality rule below)
                                }
                            }
                        }
                        WFrame::RetireConnectionId(seq) => {
                            has_cid_frame = true;
                            sum.retire_frames += 1;
                            let c = conns.entry(key).or_default();
                            if *seq != 0 && !c.received.contains_key(seq) {
                                return Err(Fail::new(
                                    "c13:retire-of-unissued-id",
                                    format!("endpoint {} conn {} pn {pn}: RETIRE_CONNECTION_ID for sequence number {seq}, which the peer never issued (received: {:?})", r.ep, r.conn, c.received.keys().collect::<Vec<_>>()),
                                ));
                            }
                            c.pending_retire.push(*seq);
                        }
                        _ => {}
                    }
                }
                cur.entry(key).or_default().push((*space, *pn, *hash, has_cid_frame));
            }
            Ev::TxDatagram { hash, .. } => {
                let pkts = cur.remove(&key).unwrap_or_default();
                // a RETIRE_CONNECTION_ID must not travel in a packet addressed with the id being retired
                let c = conns.entry(key).or_default();
                if !c.pending_retire.is_empty() {
                    let retire: Vec<u64> = std::mem::take(&mut c.pending_retire);
                    if let Some(n) = out.net.iter().find(|n| n.hash == *hash) {
                        let first = n.payload.first().copied().unwrap_or(0);
                        if first & 0x80 == 0 {
                            for seq in retire {
                                if let Some(cid) = c.received.get(&seq) {
                                    if n.payload.len() > cid.len() && &n.payload[1..1 + cid.len()] == cid.as_slice() {
                                        return Err(Fail::new(
                                            "c13:retire-sent-to-retired-id",
                                            format!("endpoint {} conn {}: RETIRE_CONNECTION_ID for seq {seq} sent in a datagram addressed with that very connection id {:02x?} (t={}us)", r.ep, r.conn, cid, r.t_us),
                                        ));
                                    }
                                }
                            }
                        }
                    }
                }
                dgram.insert(*hash, (r.ep, r.conn, pkts));
            }
            Ev::Rx { space, pn, frames, hash, .. } => {
                if *space == Space::App {
                    processed.insert((r.ep, r.conn, *hash, *pn));
                    let c = conns.entry(key).or_default();
                    c.max_rx_pn = c.max_rx_pn.max(*pn);
                }
                if let Ok(frames) = frames {
                    for f in frames {
                        match f {
                            WFrame::NewConnectionId { seq, cid, .. } => {
                                conns.entry(key).or_default().received.insert(*seq, cid.clone());
                            }
                            WFrame::RetireConnectionId(seq) => {
                                let c = conns.entry(key).or_default();
                                c.retired_by_peer.insert(*seq);
                                if *seq > 0 || c.next_seq > 1 {
                                    sum.retired_and_replaced |= c.next_seq > 1;
                                }
                            }
                            WFrame::ConnectionClose { .. } => {
                                conns.entry(key).or_default().closed_at.get_or_insert(r.t_us);
                            }
                            _ => {}
                        }
                    }
                }
                let _ = i;
            }
            _ => {}
        }
    }

    // lost NEW_/RETIRE_CONNECTION_ID frames (non-triviality rule)
    for n in &out.net {
        if matches!(n.fate, Fate::Dropped | Fate::Blackholed) {
            if let Some((_, _, pkts)) = dgram.get(&n.hash) {
                if pkts.iter().any(|p| p.3) {
                    sum.cid_frame_lost = true;
                }
            }
        }
    }
    let multi = conns.iter().filter(|(k, c)| k.0 == 0 && c.issued.len() >= 1 && c.closed_at.is_none()).count();
    sum.concurrent_multi_cid = multi >= 2;

    // ---- routing: every fresh, intact 1-RTT datagram addressed to an unretired id of an open, confirmed connection
    // reaches frame processing of exactly that connection
    let all_addrs = |ep: usize| -> Vec<SocketAddr> {
        if ep == 0 {
            vec![out.server_addr]
        } else {
            let mut v = vec![out.client_addrs[ep - 1]];
            v.extend(out.rebinds.iter().filter(|(_, c, _)| *c == ep - 1).map(|(_, _, a)| *a));
            v
        }
    };
    let eps: Vec<usize> = (0..=sc.clients.len()).collect();
    let mut seen_hash: HashSet<u64> = HashSet::new();
    for n in &out.net {
        if n.injected || !n.intact || n.deliveries_us.is_empty() {
            continue;
        }
        // duplicates of a datagram that was already delivered are legitimately discarded
        if !seen_hash.insert(n.hash) {
            continue;
        }
        let Some(&ep) = eps.iter().find(|e| all_addrs(**e).contains(&n.dst)) else { continue };
        let Some((sep, sconn, pkts)) = dgram.get(&n.hash) else { continue };
        let first = n.payload.first().copied().unwrap_or(0x80);
        if first & 0x80 != 0 {
            continue; // long header: handshake traffic is not judged here
        }
        let len = cid_len_of(sc, ep);
        if n.payload.len() < 1 + len {
            continue;
        }
        // larger than the receiver's socket buffer (its maximum MTU): truncated on receipt (an MTU probe that fails)
        let max_payload = (if ep == 0 { sc.server.mtu.2 } else { sc.clients[ep - 1].endpoint.mtu.2 }) as usize - 28;
        if n.len > max_payload {
            continue;
        }
        let dcid = n.payload[1..1 + len].to_vec();
        let Some((owner_conn, seq)) = ep_cids.get(&ep).and_then(|m| m.get(&dcid)).copied() else { continue };
        let Some(c) = conns.get(&(ep, owner_conn)) else { continue };
        let t = n.deliveries_us[0];
        // arrived as the observation ended: the endpoint may not have run any more
        if t + 2_000 >= out.end_us {
            continue;
        }
        if c.closed_at.map(|x| x <= t).unwrap_or(false) || !c.confirmed_at.map(|x| x < t).unwrap_or(false) {
            continue;
        }
        // retired (the owner processed the peer's RETIRE) or asked to be retired: no longer guaranteed
        if c.retired_by_peer.contains(&seq) || seq < c.max_rpt {
            continue;
        }
        // the sender's connection must be the peer of the owner
        let expected_client = if ep == 0 { conn_client.get(&owner_conn).copied() } else { Some(ep - 1) };
        let sender_client = if *sep == 0 { conn_client.get(sconn).copied() } else { Some(*sep - 1) };
        if expected_client.is_none() || expected_client != sender_client {
            continue;
        }
        for (space, pn, phash, _) in pkts {
            if *space != Space::App {
                continue;
            }
            // far too old packets fall out of the duplicate window
            if *pn + 100 < c.max_rx_pn {
                continue;
            }
            sum.routed_checked += 1;
            // (cleartext payloads are not unique across connections, so only presence at the owner is judged; a packet that
            // went to another connection fails authentication there and shows up here as missing)
            if !processed.contains(&(ep, owner_conn, *phash, *pn)) {
                return Err(Fail::new(
                    "c13:not-routed",
                    format!(
                        "endpoint {ep}: an intact datagram ({} bytes, t={}us from {}) addressed to the unretired connection id seq {seq} ({:02x?}) of conn {owner_conn} never reached that connection's frame processing (packet number {pn})",
                        n.len, t, n.src, dcid
                    ),
                ));
            }
        }
    }
    Ok(sum)
}

pub fn oracle(sc: &Scenario, obs: &mut Obs) -> CaseResult {
    let out = run::run(sc);
    let f = facts(&out);
    obs.units = out.recs.len() as u64;
    obs.class_if(out.capped, "capped");
    if !f.wire_errors.is_empty() {
        return Err(Fail::new("c13:wire-undecodable", f.wire_errors[0].clone()));
    }
    let s = check_cids(sc, &out, obs)?;
    obs.class_if(s.retired_and_replaced, "id-retired-and-replaced");
    obs.class_if(s.cid_frame_lost, "cid-frame-lost");
    obs.class_if(s.concurrent_multi_cid, "two-connections-with-several-ids");
    obs.class_if(s.rebinds > 0, "rebinding");
    obs.class_if(s.new_cid_frames > 4, "many-new-ids");
    obs.class_if(s.routed_checked > 0, "routing-checked");
    obs.nontrivial(s.retired_and_replaced && s.cid_frame_lost && (s.concurrent_multi_cid || s.rebinds > 0));
    obs.sample = Some(serde_json::json!({
        "clients": sc.clients.len(), "rebinds": sc.rebinds, "server_cid": sc.server.cid, "client_cid": sc.clients.iter().map(|c| c.endpoint.cid).collect::<Vec<_>>(),
        "max_active_cids": [sc.server.limits.max_active_cids, sc.clients[0].endpoint.limits.max_active_cids],
        "new_cid_frames": s.new_cid_frames, "retire_frames": s.retire_frames, "routed_checked": s.routed_checked, "virtual_ms": out.end_us / 1000,
    }));
    Ok(())
}

pub const CFG: GenCfg = GenCfg {
    max_clients: 3,
    max_streams: 2,
    max_bytes: 20_000,
    faults: FaultProfile::Lossy,
    small_windows_pct: 10,
    aborts: false,
    idle_ms: (20_000, 40_000),
    cap_ms: 400_000,
    server_initiated: true,
};

fn cid_cfg() -> impl Strategy<Value = CidCfg> {
    (prop_oneof![Just(16u8), Just(4), Just(8), Just(20), 4u8..=20], prop_oneof![2 => Just(None), 3 => (60u16..90).prop_map(Some)], prop::bool::weighted(0.7))
        .prop_map(|(len, lifetime_s, rotate_handshake)| CidCfg { len, lifetime_s, rotate_handshake })
}

pub fn scenario() -> impl Strategy<Value = Scenario> {
    (
        gen::scenario(CFG),
        cid_cfg(),
        prop::collection::vec((cid_cfg(), prop_oneof![Just(None), (2u8..=8).prop_map(Some)]), 3),
        prop_oneof![Just(None), (2u8..=8).prop_map(Some)],
        prop::collection::vec((0u8..3, 50u32..200_000), 0..4),
        prop::collection::vec(10_000_000u32..70_000_000, 0..4),
    )
        .prop_map(|(mut sc, server_cid, client_cids, server_limit, rebinds, pauses)| {
            sc.server.cid = server_cid;
            sc.server.limits.max_active_cids = server_limit;
            for (i, c) in sc.clients.iter_mut().enumerate() {
                c.endpoint.cid = client_cids[i].0;
                c.endpoint.limits.max_active_cids = client_cids[i].1;
                c.conn.close_code = None;
                // long-lived low-rate traffic so that id lifetimes expire while the connection is in use
                if let Some(s) = c.conn.streams.first_mut() {
                    for p in &pauses {
                        s.fwd.steps.push(WStep::PauseUs((*p).min(15_000_000)));
                        s.fwd.steps.push(WStep::Send(700));
                    }
                }
            }
            sc.net.tape_repeat = false;
            sc.net.max_udp_payload = 65_000;
            let n = sc.clients.len() as u8;
            sc.rebinds = rebinds.into_iter().map(|(c, t)| (c % n, t)).collect();
            sc
        })
}

pub fn subs() -> Vec<Box<dyn SubCheck>> {
    vec![Box::new(PropCheck::<Scenario, _> {
        name: "connection_ids_generated",
        cases: |t| t.pick(1_000, 60_000),
        strategy: |_t: Tier| scenario(),
        oracle,
        max_shrink_iters: 300,
    })]
}
