//! C15 (end-to-end part) — real connections that update their 1-RTT keys every few dozen packets (hook
//! `aws_s2n_quic_verif`: the key update window of `ApplicationSpace::key_limits()` is overridden through
//! S2N_QUIC_VERIF_KEY_UPDATE_AFTER) under loss, duplication, reordering and corruption.
//!
//! Oracle:
//!  * both endpoints keep decrypting each other's genuine packets: an intact datagram that the network delivered
//!    without extra delay or duplication is never dropped with "DecryptionFailed" once the handshake is confirmed
//!    (delayed copies may legitimately meet discarded old keys, RFC 9001 6.5);
//!  * the payload oracle of C01 holds, and with faults confined to a finite prefix every transfer completes (a
//!    desynchronised key phase shows up as silence until the idle timeout);
//!  * key generations reported by an endpoint go up by exactly one at a time; a key update is only started once the
//!    previous one was acknowledged (RFC 9001 6.2: generations of the two endpoints never differ by more than one);
//!  * no connection ends with a transport error (AEAD_LIMIT_REACHED, KEY_UPDATE_ERROR, PROTOCOL_VIOLATION ...) in a
//!    run without corruption.

use crate::{
    app::ReaderEnd,
    facts::facts,
    gen::{self, FaultProfile, GenCfg},
    mon_c01::check_delivery,
    net::Fate,
    rec::{CloseKind, Ev, Space},
    run,
    scenario::{Fault, Scenario},
};
use proptest::prelude::*;
use std::collections::HashMap;
use vcore::{CaseResult, Fail, Obs, PropCheck, SubCheck, Tier};

pub fn oracle(sc: &Scenario, obs: &mut Obs) -> CaseResult {
    let out = run::run(sc);
    let f = facts(&out);
    obs.units = out.recs.len() as u64;
    obs.class_if(out.capped, "capped");

    // datagram hash -> (intact, plain delivery)
    let mut by_hash: HashMap<u64, (bool, bool)> = HashMap::new();
    for n in &out.net {
        let plain = matches!(n.fate, Fate::Delivered) && !n.injected;
        let e = by_hash.entry(n.hash).or_insert((n.intact, plain));
        e.0 &= n.intact;
        e.1 &= plain;
    }
    let corrupting = sc.net.tape_up.iter().chain(sc.net.tape_down.iter()).any(|f| matches!(f, Fault::Corrupt { .. } | Fault::Truncate(_)));

    // per endpoint: last datagram received; per connection: generation, confirmation
    let mut last_dgram: HashMap<usize, u64> = HashMap::new();
    let mut generation: HashMap<(usize, u64), u16> = HashMap::new();
    let mut confirmed: HashMap<(usize, u64), bool> = HashMap::new();
    let mut closed: HashMap<(usize, u64), bool> = HashMap::new();
    // when the connection last installed new 1-RTT read keys, and its latest PTO estimate (us)
    let mut rotated_at: HashMap<(usize, u64), u64> = HashMap::new();
    let mut pto_us: HashMap<(usize, u64), u64> = HashMap::new();
    let mut excused_window = 0usize;
    // a listed known finding desynchronised the key phases: what follows (silence, idle timeout) is its consequence
    let mut stepped = false;
    let mut early_update = false;
    let mut max_gen = 0u16;
    let mut updates = 0usize;
    let mut undecryptable_excused = 0usize;
    for r in &out.recs {
        let key = (r.ep, r.conn);
        match &r.ev {
            Ev::RxDatagram { hash, .. } => {
                last_dgram.insert(r.ep, *hash);
            }
            Ev::HandshakeConfirmed => {
                confirmed.insert(key, true);
            }
            Ev::Metrics { srtt_us, rttvar_us, max_ack_delay_us, .. } => {
                // (the retention timer was armed with the estimate of its time: keep the largest seen)
                let e = pto_us.entry(key).or_insert(0);
                *e = (*e).max(srtt_us + (4 * rttvar_us).max(1_000) + max_ack_delay_us);
            }
            Ev::Closed(kind) => {
                closed.insert(key, true);
                if let CloseKind::Transport { code, reason, local, .. } = kind {
                    // 0x0 = NO_ERROR; everything else ends the connection with an error nobody asked for
                    if *code != 0 && !corrupting && sc.evil.is_none() && sc.attacks.is_empty() {
                        return Err(Fail::new(
                            format!("c15:transport-error:{code:#x}"),
                            format!("endpoint {} conn {} closed at t={}us with transport error {code:#x} ({reason}, raised {}) in a run without corruption (key update after {:?} packets)", r.ep, r.conn, r.t_us, if *local { "locally" } else { "by the peer" }, sc.key_update_after),
                        ));
                    }
                }
            }
            Ev::KeyUpdate { space: Space::App, generation: g, .. } => {
                let prev = generation.insert(key, *g);
                rotated_at.insert(key, r.t_us);
                if let Some(p) = prev {
                    updates += 1;
                    if *g != p + 1 {
                        return Err(Fail::new(
                            "c15:generation-jump",
                            format!("endpoint {} conn {} t={}us: 1-RTT key generation went from {p} to {g}", r.ep, r.conn, r.t_us),
                        ));
                    }
                }
                max_gen = max_gen.max(*g);
                // the first rotation of a connection is the answer to an update the PEER initiated: the peer must have
                // confirmed the handshake by then (RFC 9001 6.1: "An endpoint MUST NOT initiate a key update prior to
                // having confirmed the handshake")
                if *g >= 1 && !early_update {
                    if let Some(ci) = conn_client(&out, r.ep, r.conn) {
                        let peer_rotated_first = generation.iter().any(|((ep2, c2), g2)| *ep2 != r.ep && conn_client(&out, *ep2, *c2) == Some(ci) && *g2 >= *g);
                        let peer_confirmed = confirmed.iter().any(|((ep2, c2), v)| *v && *ep2 != r.ep && conn_client(&out, *ep2, *c2) == Some(ci));
                        if !peer_rotated_first && !peer_confirmed {
                            early_update = true;
                            let key_s = "c15:update-initiated-before-handshake-confirmed";
                            if obs.step_over_known(key_s) {
                                stepped = true;
                            } else {
                                return Err(Fail::new(
                                    key_s,
                                    format!("endpoint {} conn {} installed 1-RTT keys of generation {g} at t={}us in answer to a key update of its peer, which has not confirmed the handshake (key update after {:?} packets)", r.ep, r.conn, r.t_us, sc.key_update_after),
                                ));
                            }
                        }
                    }
                }
                // the peer's generation (same client): never more than one apart
                if let Some(ci) = conn_client(&out, r.ep, r.conn) {
                    for ((ep2, c2), g2) in &generation {
                        // (a delayed copy of the client's Initial makes the server start a second, never completing connection: only
                        // the connection that confirmed the handshake is the peer)
                        if *ep2 != r.ep && conn_client(&out, *ep2, *c2) == Some(ci) && !closed.contains_key(&(*ep2, *c2)) && confirmed.get(&(*ep2, *c2)).copied().unwrap_or(false) {
                            let d = (*g as i32 - *g2 as i32).abs();
                            if d > 1 {
                                return Err(Fail::new(
                                    "c15:generations-apart",
                                    format!("endpoint {} conn {} reached 1-RTT key generation {g} at t={}us while its peer (endpoint {ep2}) is at generation {g2}: an update was started before the previous one was acknowledged", r.ep, r.conn, r.t_us),
                                ));
                            }
                        }
                    }
                }
            }
            Ev::PacketDropped(reason) if reason == "DecryptionFailed" => {
                let Some(h) = last_dgram.get(&r.ep) else { continue };
                let (intact, plain) = by_hash.get(h).copied().unwrap_or((false, false));
                if !intact || !plain {
                    undecryptable_excused += 1;
                    continue;
                }
                if !confirmed.get(&key).copied().unwrap_or(false) || closed.contains_key(&key) {
                    continue;
                }
                // RFC 9001 6.5: for up to three PTOs after installing new read keys an endpoint may still hold the old keys
                // instead of the next ones; a peer that starts the next update inside that window gets its packets discarded
                // ("Failing to allow sufficient time could lead to packets being discarded") - not a violation
                let window = 3 * pto_us.get(&key).copied().unwrap_or(1_000_000) + 2_000;
                if rotated_at.get(&key).map(|t| r.t_us <= t + window).unwrap_or(true) {
                    excused_window += 1;
                    continue;
                }
                // who is ahead? (the sender's own read-key generation, from its events)
                let g_here = generation.get(&key).copied().unwrap_or(0);
                let g_peer = conn_client(&out, r.ep, r.conn)
                    .and_then(|ci| generation.iter().filter(|((ep2, c2), _)| *ep2 != r.ep && conn_client(&out, *ep2, *c2) == Some(ci) && confirmed.get(&(*ep2, *c2)).copied().unwrap_or(false)).map(|(_, g)| *g).max());
                let key_s = match g_peer {
                    // known finding: the peer has moved on to generation g+1 and, three PTOs later, starts the update to g+2
                    // although none of its packets of generation g+1 was ever acknowledged (RFC 9001 6.1 MUST NOT)
                    Some(gp) if gp > g_here => "c15:genuine-packet-undecryptable:peer-started-next-update-before-previous-acknowledged",
                    _ => "c15:genuine-packet-undecryptable",
                };
                if obs.step_over_known(key_s) {
                    stepped = true;
                    continue;
                }
                return Err(Fail::new(
                    key_s,
                    format!(
                        "endpoint {} conn {} t={}us: a packet of an intact datagram that the network delivered without delay or duplication failed to decrypt, {}us after this endpoint installed its current read keys (3 PTO = {}us); generation here {g_here}, peer's {g_peer:?}, key update after {:?} packets",
                        r.ep,
                        r.conn,
                        r.t_us,
                        r.t_us - rotated_at.get(&key).copied().unwrap_or(0),
                        window,
                        sc.key_update_after
                    ),
                ));
            }
            _ => {}
        }
    }
    obs.class_if(updates > 0, "key-updated");
    obs.class_if(out.recs.iter().any(|r| matches!(r.ev, Ev::KeyUpdate { space: Space::App, suite: 1, .. })), "suite:TLS_AES_256_GCM_SHA384");
    obs.class_if(max_gen >= 3, "generation>=3");
    obs.class_if(max_gen >= 10, "generation>=10");
    obs.class_if(f.reordered_rx > 0, "out-of-order-arrival");
    obs.class_if(f.dropped > 0, "loss");
    obs.class_if(undecryptable_excused > 0, "late-or-damaged-packet-undecryptable");
    obs.class_if(excused_window > 0, "update-arrived-while-old-keys-retained");
    obs.class_if(stepped, "known-desynchronisation");
    obs.nontrivial(max_gen >= 3 && (f.reordered_rx > 0 || f.dropped > 0));
    obs.sample = Some(serde_json::json!({
        "key_update_after": sc.key_update_after, "max_generation": max_gen, "updates_seen": updates,
        "faults": {"dropped": f.dropped, "dup": f.duplicated, "delayed": f.delayed, "corrupted": f.corrupted},
        "bytes": out.app.dirs.values().map(|d| d.read).collect::<Vec<_>>(),
    }));
    if !f.wire_errors.is_empty() {
        return Err(Fail::new("c15:wire-undecodable", f.wire_errors[0].clone()));
    }
    check_delivery(&out).map_err(|e| Fail::new(format!("c15:{}", e.key), e.msg))?;
    // finite fault prefix and a generous cap: everything completes
    let heal = crate::mon_c02::t_heal_us(&out);
    let min_idle = (0..sc.clients.len()).map(|c| crate::mon_c02::idle_ms(sc, c)).min().unwrap_or(30_000);
    let judged = !stepped && heal / 1000 < min_idle / 3 && heal / 1000 < 3_000 && crate::mon_c02::handshake_crypto_blocked(&out).is_none();
    obs.class_if(judged, "completion-judged");
    if judged && !sc.net.tape_repeat && sc.net.blackholes.is_empty() && !corrupting {
        let keys: Vec<_> = out.app.dirs.keys().copied().collect();
        for k in keys {
            let d = &out.app.dirs[&k];
            if let Some((ReaderEnd::Error(e), t)) = &d.reader_end {
                // same known finding seen from its consequence: genuine packets were discarded while this side still
                // retained old keys (RFC 9001 6.5 anticipates that), the peer never got an acknowledgement for the new
                // generation and moved on to the next one anyway; the phases never meet again
                let key_s = if excused_window > 0 { "c15:stream-failed-after-genuine-packets-were-discarded-in-retention-window" } else { "c15:stream-failed-with-key-updates" };
                if obs.step_over_known(key_s) {
                    return Ok(());
                }
                return Err(Fail::new(
                    key_s,
                    format!("client {} stream {} reader failed at t={t}us with {e} although faults were confined to a finite prefix (key update after {:?} packets, highest generation {max_gen}, genuine packets discarded inside a key retention window: {excused_window})", d.client, d.stream_id, sc.key_update_after),
                ));
            }
        }
    }
    Ok(())
}

fn conn_client(out: &run::Outcome, ep: usize, conn: u64) -> Option<usize> {
    if ep > 0 {
        return Some(ep - 1);
    }
    // server side: the remote address of the connection names the client
    out.recs.iter().find_map(|r| match &r.ev {
        Ev::ConnStarted { remote, .. } if r.ep == ep && r.conn == conn => out.client_addrs.iter().position(|a| a == remote).or_else(|| out.rebinds.iter().find(|(_, _, a)| a == remote).map(|(_, c, _)| *c)),
        _ => None,
    })
}

pub const CFG: GenCfg = GenCfg {
    max_clients: 1,
    max_streams: 3,
    max_bytes: 200_000,
    faults: FaultProfile::FinitePrefix,
    small_windows_pct: 10,
    aborts: false,
    // (generous: a handshake whose first flight was lost leaves a probe timeout of 3-4 s, and the completion rule below
    // must not mistake a legitimate idle timeout for a desynchronised key phase)
    idle_ms: (15_000, 30_000),
    cap_ms: 120_000,
    server_initiated: true,
};

pub fn scenario() -> impl Strategy<Value = Scenario> {
    // reordering around the update is what matters: long tapes of delays and duplicates, some with corruption
    let tape = |corrupt: bool| prop::collection::vec(gen::fault(corrupt), 0..160);
    (gen::scenario(CFG), prop_oneof![Just(2u32), Just(3), Just(5), Just(8), Just(20), 2u32..200], prop::bool::weighted(0.3), tape(false), tape(false), tape(true), tape(true)).prop_map(
        |(mut sc, after, corrupt, up, down, cup, cdown)| {
            sc.key_update_after = Some(after);
            // every second case runs its key updates on TLS_AES_256_GCM_SHA384 (other key schedule digest, key length)
            sc.tls_aes256 = sc.seed & 1 == 1;
            if corrupt {
                sc.net.tape_up = cup;
                sc.net.tape_down = cdown;
            } else {
                sc.net.tape_up = up;
                sc.net.tape_down = down;
            }
            sc.net.tape_repeat = false;
            sc.net.max_udp_payload = 65_000;
            // enough traffic in both directions for many generations
            for c in sc.clients.iter_mut() {
                c.conn.close_code = None;
            }
            sc
        },
    )
}

pub fn subs() -> Vec<Box<dyn SubCheck>> {
    vec![Box::new(PropCheck::<Scenario, _> { name: "key_updates_e2e", cases: |t| t.pick(1_500, 80_000), strategy: |_t: Tier| scenario(), oracle, max_shrink_iters: 300 })]
}
