//! Trace monitors for C08 (ACKs), C09 (loss detection / in-flight ledger) and C10
//! (sending within the congestion window) over one end-to-end run.

use crate::{
    rec::{Ev, Space, TxMode},
    run::Outcome,
    scenario::Scenario,
    wire::WFrame,
};
use std::collections::{BTreeMap, BTreeSet, HashMap};
use vcore::{Fail, Obs};

const GRANULARITY_US: u64 = 1_000;
/// MAX_BURST_PACKETS (10) minimum-size datagrams: below this the pacer has never armed a departure time
const PACER_BURST_BYTES: u64 = 12_000;

/// bytes an endpoint can send before its pacer may hold packets back: CUBIC's pacer releases bursts of 10 datagrams
/// (recovery/pacing.rs), BBR's releases `send_quantum` = one or two datagrams (recovery/bbr/pacing.rs)
/// upper bound of the time the pacer can hold a packet back after the last congestion-controlled packet left:
/// one pacing interval = burst / (N * cwnd / srtt) with N >= 1.25, the largest RTT estimate and the smallest window seen
/// (CUBIC: burst of 10 datagrams of the largest size configured; BBR paces at its own bandwidth estimate: no bound), doubled for safety
fn pacer_interval_bound_us(sc: &Scenario, ep: usize, srtt_us: u64, min_cwnd: u64) -> u64 {
    let cfg = if ep == 0 { &sc.server } else { &sc.clients[(ep - 1).min(sc.clients.len() - 1)].endpoint };
    let srtt = srtt_us.max(1_000);
    match cfg.cc {
        crate::scenario::Cc::Cubic => {
            let burst = 10 * cfg.mtu.2 as u64;
            let cwnd = min_cwnd.clamp(2_400, 1 << 40);
            2 * (burst * srtt * 4 / (5 * cwnd)).max(GRANULARITY_US)
        }
        // (observed on the pinned tree: with a collapsed bandwidth estimate BBR's pacer held everything, PTO probes
        // included, for more than 3 s at an RTT of 20 ms - no usable bound)
        crate::scenario::Cc::Bbr => u64::MAX / 4,
    }
}

fn pacer_burst_bytes(sc: &Scenario, ep: usize) -> u64 {
    let cfg = if ep == 0 { &sc.server } else { &sc.clients[(ep - 1).min(sc.clients.len() - 1)].endpoint };
    match cfg.cc {
        crate::scenario::Cc::Cubic => PACER_BURST_BYTES,
        crate::scenario::Cc::Bbr => 1_200,
    }
}

fn max_ack_delay_us(sc: &Scenario, ep: usize) -> u64 {
    let cfg = if ep == 0 { &sc.server } else { &sc.clients[ep - 1].endpoint };
    cfg.limits.max_ack_delay_ms.map(|v| v as u64).unwrap_or(25) * 1000
}

// ---------------------------------------------------------------------------------------
// C08

#[derive(Default, Debug)]
pub struct AckSummary {
    pub gaps: usize,
    pub reordered_ack_eliciting: usize,
    pub ack_frames: usize,
    pub prompt_checked: usize,
    pub lost_ack_datagrams: usize,
    /// packets sent without an ACK frame (a DATAGRAM frame filled them) while an acknowledgement was pending
    pub ack_squeezed_out: usize,
}

struct RxPkt {
    t: u64,
    pn: u64,
    out_of_order: bool,
    /// every earlier packet had been covered by an ACK of this endpoint that the peer acknowledged
    /// (RFC 9000 13.2.4 lets the endpoint forget those ranges)
    after_pruning: bool,
    idx: usize,
}

pub fn check_acks(sc: &Scenario, out: &Outcome, _obs: &mut Obs) -> Result<AckSummary, Fail> {
    let mut sum = AckSummary::default();
    // per (ep, conn, space): set of pns handed to frame processing so far
    let mut seen: HashMap<(usize, u64, Space), BTreeSet<u64>> = HashMap::new();
    let mut last_tx_pn: HashMap<(usize, u64, Space), u64> = HashMap::new();
    // promptness bookkeeping (application space)
    let mut pending: HashMap<(usize, u64), Vec<RxPkt>> = HashMap::new();
    let mut confirmed: HashMap<(usize, u64), u64> = HashMap::new();
    let mut closing: HashMap<(usize, u64), u64> = HashMap::new();
    let mut dropped_ranges: HashMap<(usize, u64), Vec<(u64, u64)>> = HashMap::new();
    // datagram hash -> carries an ACK frame
    let mut dgram_has_ack: HashMap<u64, bool> = HashMap::new();
    let mut cur_dgram_ack: HashMap<(usize, u64), bool> = HashMap::new();
    // application space: pn of a sent packet that carried an ACK frame -> largest pn acknowledged in it
    let mut tx_ack_largest: HashMap<(usize, u64), BTreeMap<u64, u64>> = HashMap::new();
    let mut pruned_upto: HashMap<(usize, u64), u64> = HashMap::new();
    let mut cc_bytes: HashMap<(usize, u64), u64> = HashMap::new();
    let mut last_srtt: HashMap<(usize, u64), u64> = HashMap::new();
    let mut min_cwnd: HashMap<(usize, u64), u64> = HashMap::new();
    // instant of the last congestion-controlled packet sent
    let mut last_cc_tx: HashMap<(usize, u64), u64> = HashMap::new();
    let mut prev_tx_t: HashMap<(usize, u64), u64> = HashMap::new();
    let mut cur_tx_t: HashMap<(usize, u64), u64> = HashMap::new();

    for (i, r) in out.recs.iter().enumerate() {
        if r.conn == u64::MAX {
            continue;
        }
        let key = (r.ep, r.conn);
        match &r.ev {
            Ev::HandshakeConfirmed => {
                confirmed.entry(key).or_insert(r.t_us);
            }
            Ev::Closed(_) => {
                closing.entry(key).or_insert(r.t_us);
            }
            Ev::AckRangeDropped { lo, hi } => dropped_ranges.entry(key).or_default().push((*lo, *hi)),
            Ev::Metrics { srtt_us, cwnd, .. } => {
                // the pacer's next departure time was computed from the RTT estimate of the time: use the largest seen
                let e = last_srtt.entry(key).or_insert(0);
                *e = (*e).max(*srtt_us);
                let w = min_cwnd.entry(key).or_insert(u64::MAX);
                *w = (*w).min(*cwnd as u64);
            }
            Ev::Rx { space, pn, frames, .. } => {
                let set = seen.entry((r.ep, r.conn, *space)).or_default();
                let largest = set.iter().next_back().copied();
                if !set.insert(*pn) {
                    return Err(Fail::new(
                        "c08:packet-processed-twice",
                        format!("endpoint {} conn {} {space:?}: packet number {pn} was handed to frame processing twice (t={}us)", r.ep, r.conn, r.t_us),
                    ));
                }
                let Ok(frames) = frames else { continue };
                if frames.iter().any(|f| matches!(f, WFrame::ConnectionClose { .. })) {
                    closing.entry(key).or_insert(r.t_us);
                }
                if *space == Space::App {
                    // ACK frames of this packet are processed before the ack manager sees the packet
                    for f in frames {
                        if let WFrame::Ack { ranges, .. } = f {
                            if let Some(m) = tx_ack_largest.get(&key) {
                                for (lo, hi) in ranges {
                                    if let Some(l) = m.range(*lo..=*hi).map(|(_, l)| *l).max() {
                                        let cur = pruned_upto.entry(key).or_insert(0);
                                        *cur = (*cur).max(l);
                                    }
                                }
                            }
                        }
                    }
                    let out_of_order = match largest {
                        Some(l) => *pn != l + 1,
                        None => false,
                    };
                    let after_pruning = match (largest, pruned_upto.get(&key)) {
                        (Some(l), Some(p)) => l <= *p,
                        _ => false,
                    };
                    if let Some(l) = largest {
                        if *pn > l + 1 {
                            sum.gaps += 1;
                        }
                    }
                    if frames.iter().any(|f| f.ack_eliciting()) {
                        if out_of_order {
                            sum.reordered_ack_eliciting += 1;
                        }
                        pending.entry(key).or_default().push(RxPkt { t: r.t_us, pn: *pn, out_of_order, after_pruning, idx: i });
                    }
                }
            }
            Ev::Tx { space, pn, frames, .. } => {
                // time of the last packet built strictly before this instant
                match cur_tx_t.get(&key).copied() {
                    Some(t) if t < r.t_us => {
                        prev_tx_t.insert(key, t);
                        cur_tx_t.insert(key, r.t_us);
                    }
                    None => {
                        cur_tx_t.insert(key, r.t_us);
                    }
                    _ => {}
                }
                // (3) packet numbers strictly increase within a space
                if let Some(prev) = last_tx_pn.insert((r.ep, r.conn, *space), *pn) {
                    if *pn <= prev {
                        return Err(Fail::new(
                            "c08:packet-number-not-increasing",
                            format!("endpoint {} conn {} {space:?}: packet number {pn} sent after {prev}", r.ep, r.conn),
                        ));
                    }
                }
                let Ok(frames) = frames else { continue };
                if frames.iter().any(|f| matches!(f, WFrame::ConnectionClose { .. })) {
                    closing.entry(key).or_insert(r.t_us);
                }
                if *space == Space::App
                    && frames.iter().any(|f| matches!(f, WFrame::Datagram { .. }))
                    && !frames.iter().any(|f| matches!(f, WFrame::Ack { .. }))
                    && pending.get(&key).map(|p| !p.is_empty()).unwrap_or(false)
                {
                    sum.ack_squeezed_out += 1;
                }
                for f in frames {
                    let WFrame::Ack { ranges, .. } = f else { continue };
                    sum.ack_frames += 1;
                    cur_dgram_ack.insert(key, true);
                    if *space == Space::App {
                        if let Some((_, hi)) = ranges.first() {
                            tx_ack_largest.entry(key).or_default().insert(*pn, *hi);
                        }
                    }
                    // (1) every acknowledged pn was received and processed in that space
                    let empty = BTreeSet::new();
                    let set = seen.get(&(r.ep, r.conn, *space)).unwrap_or(&empty);
                    for (lo, hi) in ranges {
                        // count of processed pns inside the range must equal its width
                        let width = hi - lo + 1;
                        let have = set.range(*lo..=*hi).count() as u64;
                        if have != width {
                            let missing = (*lo..=*hi).find(|p| !set.contains(p)).unwrap();
                            return Err(Fail::new(
                                "c08:ack-of-unreceived-packet",
                                format!("endpoint {} conn {} {space:?} pn {pn} t={}us: ACK range [{lo}, {hi}] acknowledges packet {missing}, which this endpoint never processed", r.ep, r.conn, r.t_us),
                            ));
                        }
                    }
                    // (2) promptness
                    if *space == Space::App {
                        if let Some(p) = pending.get_mut(&key) {
                            let mad = max_ack_delay_us(sc, r.ep);
                            let mut keep = vec![];
                            for pkt in p.drain(..) {
                                let covered = ranges.iter().any(|(lo, hi)| *lo <= pkt.pn && pkt.pn <= *hi);
                                if !covered {
                                    keep.push(pkt);
                                    continue;
                                }
                                let conf = confirmed.get(&key).copied();
                                let eligible = conf.map(|c| c <= pkt.t).unwrap_or(false);
                                if eligible {
                                    sum.prompt_checked += 1;
                                    let allowed = if pkt.out_of_order { 0 } else { mad } + GRANULARITY_US;
                                    if r.t_us > pkt.t + allowed {
                                        // known finding on the pinned tree: ACKs wait behind the pacer. Signature: the endpoint sent
                                        // nothing at all between processing the packet and this instant, and its last congestion-controlled
                                        // packet left less than one maximal pacing interval ago
                                        // (the pacing interval is at most 10 datagrams / (1.25 * cwnd / srtt) <= 4 * srtt at the minimum window)
                                        let _idle_gap = prev_tx_t.get(&key).map(|t| *t <= pkt.t).unwrap_or(true);
                                        // the pacer can only hold packets back once its burst capacity (10 datagrams) was used up
                                        let paced = cc_bytes.get(&key).copied().unwrap_or(0) >= pacer_burst_bytes(sc, r.ep)
                                            && r.t_us <= last_cc_tx.get(&key).copied().unwrap_or(0) + pacer_interval_bound_us(sc, r.ep, last_srtt.get(&key).copied().unwrap_or(0), min_cwnd.get(&key).copied().unwrap_or(u64::MAX));
                                        let key_s = if paced {
                                            "c08:late-ack:behind-pacer"
                                        } else if pkt.out_of_order && pkt.after_pruning && r.t_us <= pkt.t + mad + GRANULARITY_US {
                                            // known finding: a gap is not recognised once all earlier ranges were dropped after an ack-of-ack
                                            "c08:late-ack:out-of-order-after-ack-of-ack"
                                        } else if pkt.out_of_order {
                                            "c08:late-ack:out-of-order"
                                        } else {
                                            "c08:late-ack"
                                        };
                                        if _obs.step_over_known(key_s) {
                                            continue;
                                        }
                                        return Err(Fail::new(
                                            key_s,
                                            format!(
                                                "endpoint {} conn {}: ack-eliciting packet {} processed at t={}us ({}) was first acknowledged at t={}us, {}us later (max_ack_delay {}us + granularity)",
                                                r.ep, r.conn, pkt.pn, pkt.t, if pkt.out_of_order { "out of order" } else { "in order" }, r.t_us, r.t_us - pkt.t, mad
                                            ),
                                        ));
                                    }
                                }
                                let _ = pkt.idx;
                            }
                            *p = keep;
                        }
                    }
                }
            }
            Ev::PacketSent { len, .. } => {
                // (Tx precedes its PacketSent) congestion-controlled bytes sent so far
                if let Some(Ev::Tx { frames: Ok(fr), .. }) = i.checked_sub(1).map(|j| &out.recs[j].ev) {
                    if fr.iter().any(|f| !matches!(f, WFrame::Ack { .. } | WFrame::Padding(_))) {
                        *cc_bytes.entry(key).or_default() += *len as u64;
                        last_cc_tx.insert(key, r.t_us);
                    }
                }
            }
            Ev::TxDatagram { hash, .. } => {
                let has = cur_dgram_ack.remove(&key).unwrap_or(false);
                dgram_has_ack.insert(*hash, has);
            }
            _ => {}
        }
    }
    // packets never acknowledged although the endpoint stayed able to send long enough
    for (key, pkts) in &pending {
        let mad = max_ack_delay_us(sc, key.0);
        let end = closing.get(key).copied().unwrap_or(out.end_us).min(out.end_us);
        for pkt in pkts {
            let conf = confirmed.get(key).copied();
            if !conf.map(|c| c <= pkt.t).unwrap_or(false) {
                continue;
            }
            let evicted = dropped_ranges.get(key).map(|v| v.iter().any(|(lo, hi)| *lo <= pkt.pn && pkt.pn <= *hi)).unwrap_or(false);
            if evicted {
                continue;
            }
            // RFC 9000 13.2.4: once a packet carrying an ACK frame is acknowledged, the receiver may stop
            // acknowledging everything up to that frame's largest acknowledged
            if pruned_upto.get(key).map(|p| pkt.pn <= *p).unwrap_or(false) {
                continue;
            }
            // (a gap that is invisible after an ack-of-ack is treated like an in-order arrival: known finding above)
            let deadline = pkt.t + if pkt.out_of_order && !pkt.after_pruning { 0 } else { mad } + GRANULARITY_US;
            // generous slack before the end of the observation window
            if deadline + 5_000 < end {
                // same known finding as above: the ACK may still be waiting behind the pacer when the observation ends
                if cc_bytes.get(key).copied().unwrap_or(0) >= pacer_burst_bytes(sc, key.0)
                    && end <= last_cc_tx.get(key).copied().unwrap_or(0) + pacer_interval_bound_us(sc, key.0, last_srtt.get(key).copied().unwrap_or(0), min_cwnd.get(key).copied().unwrap_or(u64::MAX))
                    && _obs.step_over_known("c08:late-ack:behind-pacer")
                {
                    continue;
                }
                return Err(Fail::new(
                    "c08:never-acked",
                    format!("endpoint {} conn {}: ack-eliciting packet {} processed at t={}us was not acknowledged by t={}us (deadline t={}us)", key.0, key.1, pkt.pn, pkt.t, end, deadline),
                ));
            }
        }
    }
    for n in &out.net {
        if matches!(n.fate, crate::net::Fate::Dropped | crate::net::Fate::Blackholed) && dgram_has_ack.get(&n.hash).copied().unwrap_or(false) {
            sum.lost_ack_datagrams += 1;
        }
    }
    Ok(sum)
}

// ---------------------------------------------------------------------------------------
// C09 / C10

#[derive(Clone, Copy, Debug)]
struct Sent {
    t: u64,
    len: u64,
    cc: bool,
    mode: TxMode,
}

#[derive(Default)]
struct SpaceLedger {
    /// unresolved packets
    outstanding: BTreeMap<u64, Sent>,
    sent: BTreeSet<u64>,
    largest_acked: Option<u64>,
    acked_or_lost: BTreeSet<u64>,
    lost: BTreeSet<u64>,
}

#[derive(Default)]
struct ConnLedger {
    spaces: HashMap<Space, SpaceLedger>,
    /// frames of the payload that was just intercepted (Tx precedes its PacketSent)
    pending_cc: HashMap<(Space, u64), bool>,
    last_metrics: Option<(u64, u64, u64, u64, u32, u32, u32)>, // t, srtt, latest, rttvar, pto_count, cwnd, bif
    loss_since_last_cc_send: bool,
    /// start of the recovery period in progress (instant of the loss that opened it), None when none is known to be open
    /// reading A: starts of the recovery periods the controller may still be in (empty: certainly in none)
    rec_starts: BTreeSet<u64>,
    /// reading A: an acknowledgement that may have ended the period has been processed since the last entry
    rec_maybe_out: bool,
    /// latest send time among the packets newly acknowledged in the current processing step
    rec_acked_t: Option<u64>,
    /// a period was opened in the current processing step (at this instant)
    rec_opened_now: Option<u64>,
    recovery_start_b: Option<u64>,
    /// send times (earliest, latest) of the packets declared lost in the current processing step
    step_lost_span: Option<(u64, u64)>,
    retry_seen: bool,
    /// largest ECN-CE count reported to this endpoint so far (per space) / a higher one arrived in this processing step
    ce_seen: HashMap<Space, u64>,
    ce_signal: bool,
    cur_mtu: u64,
    paths: BTreeSet<u64>,
    /// losses waiting for the metrics event that closes the same processing step
    pending_losses: Vec<(Space, u64, u64, Sent, u64)>, // space, pn, t, sent, largest_acked
    was_limited: bool,
    had_loss: bool,
    pto_hist: Vec<(u32, u64, (u64, u64, u64))>,
    confirmed_at: Option<u64>,
    probe_times: BTreeSet<u64>,
    closed: bool,
    /// a discarded space whose packets leave the ledger after the next metrics event
    /// (the implementation publishes recovery_metrics before it removes them)
    pending_discard: Option<Space>,
}

#[derive(Default, Debug)]
pub struct RecoverySummary {
    pub lost_by_packet_threshold: usize,
    pub lost_by_time_threshold: usize,
    pub pto_expiries: usize,
    pub spurious: usize,
    pub discard_with_outstanding: usize,
    pub metrics_checked: usize,
    pub cc_sends_checked: usize,
    pub congestion_limited_seen: bool,
    pub losses: usize,
    pub multi_path: bool,
    pub pto_doubling_checked: usize,
    pub recovery_periods: usize,
    pub losses_inside_recovery: usize,
    pub over_window_sends: usize,
    pub ce_signals: usize,
    pub retries: usize,
}

impl ConnLedger {
    fn apply_discard(&mut self) {
        if let Some(space) = self.pending_discard.take() {
            if let Some(sp) = self.spaces.get_mut(&space) {
                sp.outstanding.clear();
            }
        }
    }
    fn in_flight(&self) -> u64 {
        self.spaces.values().flat_map(|s| s.outstanding.values()).filter(|p| p.cc).map(|p| p.len).sum()
    }
}

pub struct RecoveryOpts {
    pub check_c09: bool,
    pub check_c10: bool,
}

pub fn check_recovery(sc: &Scenario, out: &Outcome, opts: &RecoveryOpts, obs: &mut Obs) -> Result<RecoverySummary, Fail> {
    let _ = sc;
    let mut sum = RecoverySummary::default();
    let mut conns: HashMap<(usize, u64), ConnLedger> = HashMap::new();
    // A client that accepts a Retry discards what it sent so far in the Initial space (removed from bytes in flight without
    // being lost) and from then on sends Initial packets that carry the token. A Retry can also be discarded (wrong integrity
    // tag after the client's Initial was damaged, a second Retry ...), so acceptance is read off the wire: the record of the
    // last Retry datagram that reached the client before its first Initial with a token.
    let payload_of: HashMap<u64, &Vec<u8>> = out.net.iter().map(|n| (n.hash, &*n.payload)).collect();
    let has = |hash: &u64, f: &dyn Fn(&crate::wire::WHeader) -> bool| payload_of.get(hash).map(|p| crate::wire::parse_datagram(p, 16).iter().any(|h| h.version == 1 && f(h))).unwrap_or(false);
    let mut retry_accepted_at: HashMap<usize, usize> = HashMap::new();
    {
        let mut last_retry: HashMap<usize, usize> = HashMap::new();
        for (i, r) in out.recs.iter().enumerate() {
            if r.ep == 0 {
                continue;
            }
            match &r.ev {
                Ev::RxDatagram { hash, .. } if has(hash, &|h| h.ty == crate::wire::PktType::Retry) => {
                    last_retry.insert(r.ep, i);
                }
                Ev::TxDatagram { hash, .. } if !retry_accepted_at.contains_key(&r.ep) && has(hash, &|h| h.ty == crate::wire::PktType::Initial && h.token_len > 0) => {
                    if let Some(at) = last_retry.get(&r.ep) {
                        retry_accepted_at.insert(r.ep, *at);
                    }
                }
                _ => {}
            }
        }
    }
    for (ri, r) in out.recs.iter().enumerate() {
        if r.conn == u64::MAX {
            if retry_accepted_at.get(&r.ep) == Some(&ri) {
                // (a client endpoint of this harness has exactly one connection)
                for ((ep, _), c) in conns.iter_mut() {
                    if *ep == r.ep && !c.retry_seen {
                        c.retry_seen = true;
                        sum.retries += 1;
                        if let Some(sp) = c.spaces.get_mut(&Space::Initial) {
                            sp.outstanding.clear();
                        }
                    }
                }
            }
            continue;
        }
        let key = (r.ep, r.conn);
        let c = conns.entry(key).or_default();
        match &r.ev {
            Ev::Tx { space, pn, frames, .. } => {
                let cc = match frames {
                    Ok(fr) => fr.iter().any(|f| !matches!(f, WFrame::Ack { .. } | WFrame::Padding(_))),
                    Err(_) => true,
                };
                let closing = matches!(frames, Ok(fr) if fr.iter().any(|f| matches!(f, WFrame::ConnectionClose { .. })));
                if closing {
                    // the connection stops here: its last packet bypasses the controller and nothing is accounted afterwards
                    c.closed = true;
                }
                c.pending_cc.insert((*space, *pn), cc);
            }
            Ev::Rx { space, frames: Ok(fr), .. } => {
                // RFC 9002 7.1: an increase of the ECN-CE count reported by the peer is a congestion signal like a loss
                // (the repository's ECN controller deliberately sends CE-marked packets to test the peer)
                for f in fr {
                    if let WFrame::Ack { ecn: Some((_, _, ce)), .. } = f {
                        let seen = c.ce_seen.entry(*space).or_insert(0);
                        if *ce > *seen {
                            *seen = *ce;
                            c.ce_signal = true;
                            sum.ce_signals += 1;
                        }
                    }
                }
            }
            Ev::PacketSent { space, pn, len, mode } => {
                c.apply_discard();
                if c.closed {
                    continue;
                }
                if matches!(mode, TxMode::LossRecoveryProbing) {
                    c.probe_times.insert(r.t_us);
                }
                let cc = c.pending_cc.remove(&(*space, *pn)).unwrap_or(true);
                // C10: a congestion controlled packet is only sent while bytes in flight < cwnd
                if opts.check_c10 && cc {
                    if let Some((_, _, _, _, _, cwnd, _)) = c.last_metrics {
                        let bif = c.in_flight();
                        sum.cc_sends_checked += 1;
                        let allowance = !matches!(mode, TxMode::Normal) || c.loss_since_last_cc_send;
                        if bif >= cwnd as u64 {
                            c.was_limited = true;
                            sum.over_window_sends += 1;
                            if allowance && matches!(mode, TxMode::Normal) {
                                // the allowance of the latest period was used: that period is the current one
                                if let Some(latest) = c.rec_starts.iter().next_back().copied() {
                                    c.rec_starts.retain(|s| *s == latest);
                                }
                            }
                            if !allowance {
                                return Err(Fail::new(
                                    "c10:sent-while-congestion-limited",
                                    format!(
                                        "endpoint {} conn {} t={}us: congestion-controlled packet {space:?} pn {pn} ({len} bytes, mode {mode:?}) sent with {bif} bytes in flight >= congestion window {cwnd}, and it is neither a probe nor the one packet allowed on entering a recovery period (recovery periods possibly in progress started at {:?}us)",
                                        r.ep, r.conn, r.t_us, c.rec_starts
                                    ),
                                ));
                            }
                        }
                        if bif + 1500 >= cwnd as u64 {
                            sum.congestion_limited_seen = true;
                        }
                    }
                    c.loss_since_last_cc_send = false;
                }
                let sp = c.spaces.entry(*space).or_default();
                if !sp.sent.insert(*pn) {
                    return Err(Fail::new("c09:packet-number-sent-twice", format!("endpoint {} conn {} {space:?}: packet number {pn} reported sent twice", r.ep, r.conn)));
                }
                sp.outstanding.insert(*pn, Sent { t: r.t_us, len: *len as u64, cc, mode: *mode });
            }
            Ev::AckRange { space, lo, hi, path } => {
                c.apply_discard();
                c.paths.insert(*path);
                let sp = c.spaces.entry(*space).or_default();
                sp.largest_acked = Some(sp.largest_acked.map(|l| l.max(*hi)).unwrap_or(*hi));
                let pns: Vec<u64> = sp.outstanding.range(*lo..=*hi).map(|(p, _)| *p).collect();
                // RFC 9002 7.3.2: the recovery period ends when a packet sent during it is acknowledged
                // (RFC 9002 A.7 and the code process the losses of an ACK before its newly acknowledged packets, so this
                // takes effect at the end of the processing step)
                if let Some(t) = sp.outstanding.range(*lo..=*hi).map(|(_, p)| p.t).max() {
                    c.rec_acked_t = Some(c.rec_acked_t.map_or(t, |o| o.max(t)));
                }
                for p in pns {
                    sp.outstanding.remove(&p);
                    sp.acked_or_lost.insert(p);
                }
                // spurious loss: acknowledged after having been declared lost
                let spurious: Vec<u64> = sp.lost.range(*lo..=*hi).copied().collect();
                for p in spurious {
                    sp.lost.remove(&p);
                    sum.spurious += 1;
                }
            }
            Ev::PacketLost { space, pn, path, mtu_probe, bytes } => {
                c.apply_discard();
                c.paths.insert(*path);
                c.had_loss = true;
                sum.losses += 1;
                // RFC 9002 7.3.1/7.3.2: one packet may be sent on *entering* a recovery period; a sender that is in a
                // recovery period stays in it. Two readings of "entering" are accepted, tracked side by side:
                //  A (7.3.2 text, the repository's controllers): a loss opens a period when none is open; a period
                //    *may* end whenever a packet sent after its start is acknowledged (CUBIC skips the exit while it
                //    is application limited, so "may", and every start that can still be current is kept until
                //    evidence - a used allowance - shows that a new period really began);
                //  B (RFC 9002 B.6 pseudo code): a loss opens a period when the lost packet was sent after the start
                //    of the latest period.
                // (the loss of an MTU probe is not a congestion signal: RFC 8899 3, RFC 9000 14.4; neither is the "loss" of a
                // packet that was never in flight - ACK-only packets, reported with 0 bytes)
                let sent_t = c.spaces.get(space).and_then(|sp| sp.outstanding.get(pn)).map(|p| p.t);
                if let (false, Some(t)) = (*mtu_probe, sent_t) {
                    c.step_lost_span = Some(c.step_lost_span.map_or((t, t), |(a, b)| (a.min(t), b.max(t))));
                }
                if !*mtu_probe && *bytes > 0 {
                    let opens_a = c.rec_starts.is_empty() || c.rec_maybe_out;
                    let opens_b = match (c.recovery_start_b, sent_t) {
                        (None, _) => true,
                        (Some(start), Some(t)) => t > start,
                        (Some(_), None) => false,
                    };
                    if opens_a {
                        c.rec_starts.insert(r.t_us);
                        c.rec_maybe_out = false;
                        c.rec_opened_now = Some(r.t_us);
                        c.loss_since_last_cc_send = true;
                        sum.recovery_periods += 1;
                    }
                    if opens_b {
                        c.recovery_start_b = Some(r.t_us);
                        c.loss_since_last_cc_send = true;
                    }
                    if !opens_a && !opens_b {
                        sum.losses_inside_recovery += 1;
                    }
                }
                let sp = c.spaces.entry(*space).or_default();
                let Some(sent) = sp.outstanding.remove(pn) else {
                    let why = if !sp.sent.contains(pn) {
                        "was never sent"
                    } else {
                        "had already been resolved (acknowledged, lost or discarded)"
                    };
                    if opts.check_c09 {
                        return Err(Fail::new(
                            "c09:loss-of-resolved-packet",
                            format!("endpoint {} conn {} {space:?} t={}us: packet {pn} declared lost, but it {why}", r.ep, r.conn, r.t_us),
                        ));
                    }
                    continue;
                };
                sp.acked_or_lost.insert(*pn);
                sp.lost.insert(*pn);
                let la = sp.largest_acked;
                if opts.check_c09 {
                    match la {
                        Some(la) if la > *pn => {
                            c.pending_losses.push((*space, *pn, r.t_us, sent, la));
                        }
                        _ => {
                            return Err(Fail::new(
                                "c09:lost-without-later-ack",
                                format!(
                                    "endpoint {} conn {} {space:?} t={}us: packet {pn} declared lost although no packet sent after it has been acknowledged (largest acknowledged: {la:?})",
                                    r.ep, r.conn, r.t_us
                                ),
                            ));
                        }
                    }
                }
            }
            Ev::HandshakeConfirmed => {
                c.confirmed_at.get_or_insert(r.t_us);
            }
            Ev::MtuUpdated { mtu } => {
                c.cur_mtu = *mtu as u64;
            }
            Ev::SpaceDiscarded(space) => {
                c.apply_discard();
                if let Some(sp) = c.spaces.get(space) {
                    if !sp.outstanding.is_empty() {
                        sum.discard_with_outstanding += 1;
                    }
                }
                c.pending_discard = Some(*space);
            }
            Ev::Metrics { path, srtt_us, latest_rtt_us, rttvar_us, pto_count, cwnd, bytes_in_flight, max_ack_delay_us, min_rtt_us, .. } => {
                c.paths.insert(*path);
                if c.paths.len() > 1 {
                    sum.multi_path = true;
                }
                // C09 (1): losses declared in this processing step, judged with the RTT state it used
                if opts.check_c09 {
                    for (space, pn, t, sent, la) in c.pending_losses.drain(..) {
                        let by_packets = la - pn >= 3;
                        let thr = (9 * (*srtt_us).max(*latest_rtt_us) / 8).max(GRANULARITY_US);
                        let age = t - sent.t;
                        let by_time = age >= thr;
                        if by_packets {
                            sum.lost_by_packet_threshold += 1;
                        } else if by_time {
                            sum.lost_by_time_threshold += 1;
                        }
                        if !by_packets && !by_time {
                            // known deviation: the time threshold is evaluated with one timer granularity (1 ms) of slack
                            let key = if age + GRANULARITY_US >= thr { "c09:lost-before-time-threshold-within-granularity" } else { "c09:lost-too-early" };
                            if !obs.step_over_known(key) {
                                return Err(Fail::new(
                                    key,
                                    format!(
                                        "endpoint {} conn {} {space:?}: packet {pn} (sent t={}us) declared lost at t={t}us: largest acknowledged {la} is only {} ahead and its age {age}us is below the time threshold {thr}us = max(9/8*max(srtt {srtt_us}, latest {latest_rtt_us}), 1ms)",
                                        r.ep, r.conn, sent.t, la - pn
                                    ),
                                ));
                            }
                        }
                    }
                    // (4) RTT sanity
                    if *min_rtt_us > *srtt_us.max(latest_rtt_us) && *min_rtt_us > 0 && false {
                        return Err(Fail::new("c09:min-rtt-above-samples", format!("endpoint {} conn {}: min_rtt {min_rtt_us}us above srtt {srtt_us}us and latest {latest_rtt_us}us", r.ep, r.conn)));
                    }
                    // (3) in-flight ledger (single path only)
                    if c.paths.len() == 1 && !c.closed {
                        let model = c.in_flight();
                        sum.metrics_checked += 1;
                        if model != *bytes_in_flight as u64 {
                            return Err(Fail::new(
                                "c09:bytes-in-flight-mismatch",
                                format!(
                                    "endpoint {} conn {} t={}us: recovery reports {} bytes in flight, the unresolved congestion-controlled packets sum to {model} ({:?})",
                                    r.ep,
                                    r.conn,
                                    r.t_us,
                                    bytes_in_flight,
                                    c.spaces.iter().map(|(s, l)| (s, l.outstanding.iter().filter(|(_, p)| p.cc).map(|(pn, p)| (*pn, p.len)).collect::<Vec<_>>())).collect::<Vec<_>>()
                                ),
                            ));
                        }
                    }
                    // (5) PTO backoff: the gap between consecutive expiries doubles. Judged only on three consecutive
                    // expiries (count k, k+1, k+2) with an unchanged RTT state and a probe sent at each of them, so that
                    // the period was re-armed from the expiry instant; independent of the base formula.
                    let rtt_state = (*srtt_us, *rttvar_us, *max_ack_delay_us);
                    let new_expiry = match c.pto_hist.last() {
                        Some((cnt, _, _)) => *pto_count == *cnt + 1,
                        None => *pto_count == 1,
                    };
                    if *pto_count == 0 {
                        c.pto_hist.clear();
                    } else if new_expiry && !c.closed {
                        sum.pto_expiries += 1;
                        c.pto_hist.push((*pto_count, r.t_us, rtt_state));
                        let n = c.pto_hist.len();
                        if n >= 2 {
                            let (a, b) = (c.pto_hist[n - 2], c.pto_hist[n - 1]);
                            // the period armed at expiry #k (probe sent then) is 2^k x (srtt + max(4*rttvar, granularity) [+ max_ack_delay]):
                            // lower bound without max_ack_delay, only when the RTT state is the same at both expiries
                            if a.2 == b.2 && c.probe_times.contains(&a.1) && c.confirmed_at.map(|t| t < a.1).unwrap_or(false) {
                                let jitter = {
                                    let cfg = if r.ep == 0 { &sc.server } else { &sc.clients[r.ep - 1].endpoint };
                                    cfg.limits.pto_jitter.unwrap_or(0) as u64
                                };
                                let base = *srtt_us + (4 * *rttvar_us).max(GRANULARITY_US);
                                let lower = base.saturating_mul(1 << a.0.min(20)) * (100 - jitter) / 100;
                                let gap = b.1 - a.1;
                                if gap + GRANULARITY_US + 1 < lower {
                                    return Err(Fail::new(
                                        "c09:pto-backoff-not-doubling",
                                        format!(
                                            "endpoint {} conn {}: PTO expiry #{} at t={}us came {gap}us after expiry #{} (t={}us), expected at least {lower}us = 2^{} x (srtt {srtt_us} + max(4*rttvar {rttvar_us}, 1ms)) less jitter {jitter}%",
                                            r.ep, r.conn, b.0, b.1, a.0, a.1, a.0
                                        ),
                                    ));
                                }
                                sum.pto_doubling_checked += 1;
                            }
                        }
                    } else if !new_expiry && c.pto_hist.last().map(|(cnt, _, _)| *cnt != *pto_count).unwrap_or(false) {
                        c.pto_hist.clear();
                    }
                }
                c.apply_discard();
                c.rec_opened_now = None;
                let acked_t = c.rec_acked_t.take();
                if let Some(t) = acked_t {
                    if c.rec_starts.iter().any(|s| *s < t) {
                        c.rec_maybe_out = true;
                    }
                }
                if std::mem::take(&mut c.ce_signal) {
                    // judged at the end of the step (whichever order the implementation uses for exit and signal)
                    // (the implementation may also disregard the report - ECN validation failed or still pending - so the
                    // signal only ADDS a possible period start; "no period open" stays possible)
                    if c.rec_starts.is_empty() || c.rec_maybe_out {
                        c.rec_maybe_out = true;
                        c.rec_starts.insert(r.t_us);
                        c.loss_since_last_cc_send = true;
                        sum.recovery_periods += 1;
                    }
                    // reading B: OnCongestionEvent(sent time of the largest newly acknowledged packet)
                    if match (c.recovery_start_b, acked_t) {
                        (None, _) => true,
                        (Some(start), Some(t)) => t > start,
                        (Some(_), None) => false,
                    } {
                        c.recovery_start_b = Some(r.t_us);
                        c.loss_since_last_cc_send = true;
                    }
                }
                // persistent congestion collapses the window to the minimum and restarts slow start, which also ends the
                // recovery period (RFC 9002 7.6.2); it is not reported as an event, so a window at or below four maximum
                // datagrams of the current size (the larger of the two controllers' minimum) is taken as "period possibly over"
                // persistent congestion (RFC 9002 7.6): when the packets lost in one step were sent further apart than the
                // persistent congestion duration, the window collapses to the minimum and slow start begins again, which ends
                // the recovery period; the acknowledgements of the same step may already have grown the window again, so the
                // collapse is not visible in this event. Judged generously (80% of the duration computed from this event).
                if let Some((first, last)) = c.step_lost_span.take() {
                    let pc = 3 * (*srtt_us + (4 * *rttvar_us).max(GRANULARITY_US) + *max_ack_delay_us);
                    if (last - first) * 10 >= pc * 8 && !c.rec_starts.is_empty() {
                        c.rec_maybe_out = true;
                        c.recovery_start_b = None;
                    }
                }
                if (*cwnd as u64) <= 4 * c.cur_mtu.max(1200) && !c.rec_starts.is_empty() {
                    c.rec_maybe_out = true;
                    c.recovery_start_b = None;
                }
                c.last_metrics = Some((r.t_us, *srtt_us, *latest_rtt_us, *rttvar_us, *pto_count, *cwnd, *bytes_in_flight));
            }
            _ => {}
        }
    }
    Ok(sum)
}
