//! ScriptedNet: the harness-owned network of the deterministic IO provider. It sees every
//! datagram of every endpoint and decides its fate from the scenario's fault tape.

use crate::scenario::{Blackhole, Dir, Fault, NetCfg};
use s2n_quic::provider::io::testing::{
    self as io,
    network::{Buffers, Network, Packet},
};
use s2n_quic_core::inet::SocketAddress;
use std::{
    net::SocketAddr,
    sync::{Arc, Mutex},
    time::Duration,
};

/// what actually happened to a datagram
#[derive(Clone, Copy, Debug, PartialEq, Eq)]
pub enum Fate {
    Delivered,
    Dropped,
    Blackholed,
    MtuDropped,
    Duplicated(u8),
    Delayed,
    Corrupted,
    Truncated,
}

#[derive(Clone, Debug)]
pub struct NetRec {
    pub t_us: u64,
    pub src: SocketAddr,
    pub dst: SocketAddr,
    pub len: usize,
    pub dir: Dir,
    /// index of this datagram among the datagrams of its direction
    pub idx: u32,
    pub fate: Fate,
    /// arrival instants of every copy that reached the destination queue (recorded at arrival)
    pub deliveries_us: Vec<u64>,
    /// hash of the bytes as sent
    pub hash: u64,
    /// the bytes as sent (kept: the monitors parse headers from them)
    pub payload: Arc<Vec<u8>>,
    /// true when the delivered bytes equal the sent bytes
    pub intact: bool,
    /// injected by the harness (attacker / stray datagram), not sent by an endpoint
    pub injected: bool,
}

#[derive(Default)]
pub struct NetState {
    pub log: Vec<NetRec>,
    pub server_addr: Option<SocketAddr>,
    pub buffers: Option<Buffers>,
    up_idx: u32,
    down_idx: u32,
}

pub type NetShared = Arc<Mutex<NetState>>;

pub struct ScriptedNet {
    cfg: NetCfg,
    shared: NetShared,
}

pub fn now_us() -> u64 {
    let now = io::now();
    unsafe { now.as_duration().as_micros() as u64 }
}

fn addr_key(a: &SocketAddr) -> (u8, [u8; 16], u16) {
    match a {
        SocketAddr::V4(v) => {
            let mut b = [0u8; 16];
            b[..4].copy_from_slice(&v.ip().octets());
            (4, b, v.port())
        }
        SocketAddr::V6(v) => (6, v.ip().octets(), v.port()),
    }
}

impl ScriptedNet {
    pub fn new(cfg: NetCfg) -> (Self, NetShared) {
        let shared: NetShared = Default::default();
        (ScriptedNet { cfg, shared: shared.clone() }, shared)
    }

    fn fault_for(&self, dir: Dir, idx: u32) -> Fault {
        for (d, i, f) in &self.cfg.overrides {
            if *d == dir && *i == idx {
                return *f;
            }
        }
        let tape = match dir {
            Dir::Up => &self.cfg.tape_up,
            Dir::Down => &self.cfg.tape_down,
        };
        if tape.is_empty() {
            return Fault::Pass;
        }
        let i = idx as usize;
        if i < tape.len() {
            tape[i]
        } else if self.cfg.tape_repeat {
            tape[i % tape.len()]
        } else {
            Fault::Pass
        }
    }

    fn blackholed(&self, dir: Dir, t_us: u64) -> bool {
        let t_ms = t_us / 1000;
        self.cfg.blackholes.iter().any(|b: &Blackhole| {
            t_ms >= b.from_ms
                && t_ms < b.to_ms
                && match dir {
                    Dir::Up => b.up,
                    Dir::Down => b.down,
                }
        })
    }
}

pub fn deliver_at(buffers: &Buffers, mut packet: Packet, at_us: u64, shared: &NetShared, rec_idx: usize) {
    // the receiver sees its own address as local
    packet.switch();
    let buffers = buffers.clone();
    let shared = shared.clone();
    let now = now_us();
    io::spawn(async move {
        if at_us > now {
            io::time::delay(Duration::from_micros(at_us - now)).await;
        }
        let dst: SocketAddress = *packet.path.local_address;
        // (an address nobody is bound to any more, e.g. after a rebinding, swallows the datagram)
        let mut arrived = false;
        buffers.rx(dst, |queue| {
            queue.enqueue(packet);
            arrived = true;
        });
        if !arrived {
            return;
        }
        // the actual arrival instant, as the receiving endpoint's clock sees it
        if let Ok(mut st) = shared.lock() {
            if let Some(rec) = st.log.get_mut(rec_idx) {
                rec.deliveries_us.push(now_us());
            }
        }
    });
}

/// Puts a datagram straight into an endpoint's receive queue (attacker / stray traffic that does not
/// come from any endpoint's socket) and logs it as injected.
pub fn inject(shared: &NetShared, src: SocketAddr, dst: SocketAddr, payload: Vec<u8>) {
    let (buffers, server) = {
        let st = shared.lock().unwrap();
        (st.buffers.clone(), st.server_addr)
    };
    let Some(buffers) = buffers else { return };
    let t_us = now_us();
    let packet = Packet {
        path: s2n_quic_core::path::Tuple { remote_address: SocketAddress::from(src).into(), local_address: SocketAddress::from(dst).into() },
        ecn: Default::default(),
        payload: payload.clone(),
    };
    let mut arrived = false;
    buffers.rx(SocketAddress::from(dst), |queue| {
        queue.enqueue(packet);
        arrived = true;
    });
    let mut st = shared.lock().unwrap();
    let dir = if Some(dst) == server { Dir::Up } else { Dir::Down };
    st.log.push(NetRec {
        t_us,
        src,
        dst,
        len: payload.len(),
        dir,
        idx: u32::MAX,
        fate: Fate::Delivered,
        deliveries_us: if arrived { vec![t_us] } else { vec![] },
        hash: vcore::hash_of(&payload),
        payload: Arc::new(payload),
        intact: true,
        injected: true,
    });
}

impl Network for ScriptedNet {
    fn execute(&mut self, buffers: &Buffers) -> usize {
        let mut packets: Vec<Packet> = vec![];
        buffers.drain_pending_transmissions(|p| {
            packets.push(p);
            Ok(())
        });
        if packets.is_empty() {
            // remember the buffers even when idle so that injectors can use them
            let mut st = self.shared.lock().unwrap();
            if st.buffers.is_none() {
                st.buffers = Some(buffers.clone());
            }
            return 0;
        }
        // the platform drains a HashMap: make the order a function of the addresses only
        packets.sort_by_key(|p| {
            let src: SocketAddr = (*p.path.local_address).into();
            addr_key(&src)
        });
        let t_us = now_us();
        let base = self.cfg.delay_us as u64;
        let mut st = self.shared.lock().unwrap();
        if st.buffers.is_none() {
            st.buffers = Some(buffers.clone());
        }
        let server = st.server_addr;
        let mut count = 0;
        for packet in packets {
            let src: SocketAddr = (*packet.path.local_address).into();
            let dst: SocketAddr = (*packet.path.remote_address).into();
            let dir = if Some(src) == server { Dir::Down } else { Dir::Up };
            let idx = match dir {
                Dir::Up => {
                    st.up_idx += 1;
                    st.up_idx - 1
                }
                Dir::Down => {
                    st.down_idx += 1;
                    st.down_idx - 1
                }
            };
            let len = packet.payload.len();
            let payload = Arc::new(packet.payload.clone());
            let mut rec = NetRec {
                t_us,
                src,
                dst,
                len,
                dir,
                idx,
                fate: Fate::Delivered,
                deliveries_us: vec![],
                hash: vcore::hash_of(&packet.payload),
                payload,
                intact: true,
                injected: false,
            };
            // (packet, scheduled arrival) for every copy that will be delivered
            let mut copies: Vec<(Packet, u64)> = vec![];
            if len > self.cfg.max_udp_payload as usize {
                rec.fate = Fate::MtuDropped;
            } else if self.blackholed(dir, t_us) {
                rec.fate = Fate::Blackholed;
            } else {
                match self.fault_for(dir, idx) {
                    Fault::Pass => copies.push((packet, t_us + base)),
                    Fault::Drop => rec.fate = Fate::Dropped,
                    Fault::Dup(n) => {
                        let n = (n % 4) + 1;
                        rec.fate = Fate::Duplicated(n);
                        for k in 0..=n as u64 {
                            // copies arrive slightly apart
                            copies.push((packet.clone(), t_us + base + k * (base / 8 + 1)));
                        }
                    }
                    Fault::Delay(units) => {
                        rec.fate = Fate::Delayed;
                        copies.push((packet, t_us + base + (units as u64) * (base / 4 + 1)));
                    }
                    Fault::Corrupt { pos, mask } => {
                        let mut packet = packet;
                        if len > 0 && mask != 0 {
                            let i = pos as usize % len;
                            packet.payload[i] ^= mask;
                            rec.fate = Fate::Corrupted;
                            rec.intact = false;
                        }
                        copies.push((packet, t_us + base));
                    }
                    Fault::Truncate(n) => {
                        let mut packet = packet;
                        if len > 1 {
                            let keep = 1 + (n as usize % (len - 1));
                            packet.payload.truncate(keep);
                            rec.fate = Fate::Truncated;
                            rec.intact = false;
                        }
                        copies.push((packet, t_us + base));
                    }
                }
            }
            let rec_idx = st.log.len();
            for (p, at) in copies {
                deliver_at(buffers, p, at, &self.shared, rec_idx);
            }
            st.log.push(rec);
            count += 1;
        }
        count
    }
}
