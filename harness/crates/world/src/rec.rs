//! Recorder: a packet interceptor + event subscriber attached to every endpoint. Everything
//! is appended to one shared, time-ordered trace (the simulation is single-threaded).

use crate::{
    net::now_us,
    scenario::{payload_key, Side},
    wire::{parse_frames, WFrame, WireError},
};
use s2n_quic::provider::event::{self, events};
use s2n_quic_core::{
    event::api::Subject,
    packet::{
        interceptor::{Datagram, Interceptor, Packet},
        number::PacketNumberSpace,
    },
};
use s2n_codec::{encoder::scatter, DecoderBufferMut, EncoderBuffer};
use std::{
    collections::HashMap,
    net::SocketAddr,
    sync::{Arc, Mutex},
};

#[derive(Clone, Copy, Debug, PartialEq, Eq, Hash, PartialOrd, Ord)]
pub enum Space {
    Initial,
    Handshake,
    App,
}

impl Space {
    fn of(s: PacketNumberSpace) -> Space {
        match s {
            PacketNumberSpace::Initial => Space::Initial,
            PacketNumberSpace::Handshake => Space::Handshake,
            PacketNumberSpace::ApplicationData => Space::App,
        }
    }
    fn of_header(h: &events::PacketHeader) -> Option<(Space, u64)> {
        match h {
            events::PacketHeader::Initial { number, .. } => Some((Space::Initial, *number)),
            events::PacketHeader::Handshake { number, .. } => Some((Space::Handshake, *number)),
            events::PacketHeader::ZeroRtt { number, .. } => Some((Space::App, *number)),
            events::PacketHeader::OneRtt { number, .. } => Some((Space::App, *number)),
            _ => None,
        }
    }
}

#[derive(Clone, Copy, Debug, PartialEq, Eq)]
pub enum TxMode {
    Normal,
    LossRecoveryProbing,
    MtuProbing,
    PathValidationOnly,
}

#[derive(Clone, Debug, PartialEq, Eq)]
pub enum CloseKind {
    /// closed without error by `initiator_local`
    Closed { local: bool },
    Transport { code: u64, frame_type: u64, local: bool, reason: String },
    Application { code: u64, local: bool },
    StatelessReset,
    IdleTimerExpired,
    NoValidPath,
    StreamIdExhausted,
    MaxHandshakeDurationExceeded,
    ImmediateClose,
    EndpointClosing,
    Other(String),
}

#[derive(Clone, Debug, Default, PartialEq, Eq)]
pub struct PeerParams {
    pub max_idle_timeout_ms: u64,
    pub ack_delay_exponent: u8,
    pub max_ack_delay_ms: u64,
    pub max_udp_payload_size: u64,
    pub active_connection_id_limit: u64,
    pub initial_max_data: u64,
    pub bidi_local: u64,
    pub bidi_remote: u64,
    pub uni: u64,
    pub streams_bidi: u64,
    pub streams_uni: u64,
}

#[derive(Clone, Debug, PartialEq, Eq)]
pub struct StreamCheck {
    /// index into frames
    pub frame: usize,
    /// first offset whose byte differs from the payload PRF of that stream direction
    pub bad_at: Option<u64>,
    /// hash of the carried bytes
    pub hash: u64,
}

#[derive(Clone, Debug)]
pub enum Ev {
    /// cleartext payload of a packet about to be sealed
    Tx { space: Space, pn: u64, frames: Result<Vec<WFrame>, WireError>, streams: Vec<StreamCheck>, hash: u64, len: usize },
    /// cleartext payload of a packet that passed authentication, as handed to frame processing
    Rx { space: Space, pn: u64, frames: Result<Vec<WFrame>, WireError>, streams: Vec<StreamCheck>, hash: u64, len: usize },
    TxDatagram { remote: SocketAddr, len: usize, hash: u64 },
    RxDatagram { remote: SocketAddr, len: usize, hash: u64 },
    ConnStarted { remote: SocketAddr, local_cid: Vec<u8>, remote_cid: Vec<u8> },
    PacketSent { space: Space, pn: u64, len: usize, mode: TxMode },
    PacketLost { space: Space, pn: u64, bytes: u16, mtu_probe: bool, path: u64 },
    AckRange { space: Space, lo: u64, hi: u64, path: u64 },
    Metrics { path: u64, min_rtt_us: u64, srtt_us: u64, latest_rtt_us: u64, rttvar_us: u64, max_ack_delay_us: u64, pto_count: u32, cwnd: u32, bytes_in_flight: u32, congestion_limited: bool },
    Params(PeerParams),
    KeyUpdate { space: Space, generation: u16, /// 0 = AES-128-GCM, 1 = AES-256-GCM, 2 = ChaCha20-Poly1305, 9 = other
        suite: u8 },
    SpaceDiscarded(Space),
    HandshakeComplete,
    HandshakeConfirmed,
    Closed(CloseKind),
    PacketDropped(String),
    DatagramDropped(String),
    AckRangeDropped { lo: u64, hi: u64 },
    MtuUpdated { mtu: u16 },
    /// endpoint-level (no connection): datagram dropped before reaching a connection
    EndpointDatagramDropped { len: u16, reason: String },
    EndpointPacketSent { kind: &'static str },
}

#[derive(Clone, Debug)]
pub struct Rec {
    pub t_us: u64,
    /// 0 = server, 1 + i = client i
    pub ep: usize,
    /// the endpoint's internal connection id (u64::MAX for endpoint-level events)
    pub conn: u64,
    pub ev: Ev,
}

#[derive(Default)]
pub struct TraceState {
    pub recs: Vec<Rec>,
    /// address -> client index (filled by the runner, extended on rebinding)
    pub addr_client: HashMap<SocketAddr, usize>,
    /// (ep, conn) -> client index
    pub conn_client: HashMap<(usize, u64), usize>,
    /// when set, stream payload bytes are not compared with the PRF (evil-peer mode)
    pub no_payload_check: bool,
    /// (time, client, new address)
    pub rebinds: Vec<(u64, usize, SocketAddr)>,
}

pub type Trace = Arc<Mutex<TraceState>>;

impl TraceState {
    fn push(&mut self, ep: usize, conn: u64, ev: Ev) {
        self.recs.push(Rec { t_us: now_us(), ep, conn, ev });
    }
    pub fn client_of(&self, ep: usize, conn: u64) -> Option<usize> {
        if ep > 0 {
            Some(ep - 1)
        } else {
            self.conn_client.get(&(ep, conn)).copied()
        }
    }
}

#[derive(Clone)]
pub struct Recorder {
    pub ep: usize,
    pub trace: Trace,
}

fn conn_of(subject: &Subject) -> u64 {
    match subject {
        Subject::Connection { id, .. } => *id,
        _ => u64::MAX,
    }
}

fn addr_of(a: &s2n_quic_core::event::api::SocketAddress) -> SocketAddr {
    use s2n_quic_core::event::api::SocketAddress as A;
    match a {
        A::IpV4 { ip, port, .. } => SocketAddr::from((**ip, *port)),
        A::IpV6 { ip, port, .. } => SocketAddr::from((**ip, *port)),
        _ => SocketAddr::from(([0, 0, 0, 0], 0)),
    }
}

impl Recorder {
    fn side(&self) -> Side {
        if self.ep == 0 {
            Side::Server
        } else {
            Side::Client
        }
    }

    fn decode(&self, st: &TraceState, conn: u64, payload: &[u8], sent_by: Side) -> (Result<Vec<WFrame>, WireError>, Vec<StreamCheck>) {
        let frames = parse_frames(payload);
        let mut checks = vec![];
        if let Ok(frames) = &frames {
            let client = st.client_of(self.ep, conn);
            for (i, f) in frames.iter().enumerate() {
                if let WFrame::Stream { id, off, len, data_at, .. } = f {
                    let data = &payload[*data_at..*data_at + *len as usize];
                    let bad_at = match client {
                        Some(c) if !st.no_payload_check => {
                            // the sender of a stream's bytes is fixed by the stream id and
                            // direction: bytes flow from `sent_by`
                            let key = payload_key(c, *id, sent_by);
                            vcore::gen::prf_mismatch(key, *off, data).map(|k| off + k as u64)
                        }
                        _ => None,
                    };
                    checks.push(StreamCheck { frame: i, bad_at, hash: vcore::hash_of(&data) });
                }
            }
        }
        (frames, checks)
    }
}

impl Interceptor for Recorder {
    fn intercept_rx_datagram<'a>(&mut self, subject: &Subject, datagram: &Datagram, payload: DecoderBufferMut<'a>) -> DecoderBufferMut<'a> {
        let slice = payload.into_less_safe_slice();
        {
            let mut st = self.trace.lock().unwrap();
            let ev = Ev::RxDatagram { remote: addr_of(&datagram.remote_address), len: slice.len(), hash: vcore::hash_of(&&slice[..]) };
            st.push(self.ep, conn_of(subject), ev);
        }
        DecoderBufferMut::new(slice)
    }

    fn intercept_rx_payload<'a>(&mut self, subject: &Subject, packet: &Packet, payload: DecoderBufferMut<'a>) -> DecoderBufferMut<'a> {
        let slice = payload.into_less_safe_slice();
        {
            let mut st = self.trace.lock().unwrap();
            let conn = conn_of(subject);
            let peer = match self.side() {
                Side::Client => Side::Server,
                Side::Server => Side::Client,
            };
            let (frames, streams) = self.decode(&st, conn, slice, peer);
            let ev = Ev::Rx { space: Space::of(packet.number.space()), pn: packet.number.as_u64(), frames, streams, hash: vcore::hash_of(&&slice[..]), len: slice.len() };
            st.push(self.ep, conn, ev);
        }
        DecoderBufferMut::new(slice)
    }

    fn intercept_tx_datagram(&mut self, subject: &Subject, datagram: &Datagram, payload: &mut EncoderBuffer) {
        let slice = payload.as_mut_slice();
        let mut st = self.trace.lock().unwrap();
        let ev = Ev::TxDatagram { remote: addr_of(&datagram.remote_address), len: slice.len(), hash: vcore::hash_of(&&slice[..]) };
        st.push(self.ep, conn_of(subject), ev);
    }

    fn intercept_tx_payload(&mut self, subject: &Subject, packet: &Packet, payload: &mut scatter::Buffer) {
        let buf = payload.flatten();
        let slice = buf.as_mut_slice();
        let mut st = self.trace.lock().unwrap();
        let conn = conn_of(subject);
        let (frames, streams) = self.decode(&st, conn, slice, self.side());
        let ev = Ev::Tx { space: Space::of(packet.number.space()), pn: packet.number.as_u64(), frames, streams, hash: vcore::hash_of(&&slice[..]), len: slice.len() };
        st.push(self.ep, conn, ev);
    }
}

pub struct ConnCtx {
    id: u64,
}

fn close_kind(e: &s2n_quic_core::connection::Error) -> CloseKind {
    use s2n_quic_core::{connection::Error as E, endpoint::Location};
    let is_local = |l: &Location| matches!(l, Location::Local);
    match e {
        E::Closed { initiator, .. } => CloseKind::Closed { local: is_local(initiator) },
        E::Transport { code, frame_type, reason, initiator, .. } => CloseKind::Transport {
            code: code.as_u64(),
            frame_type: *frame_type,
            local: is_local(initiator),
            reason: reason.to_string(),
        },
        E::Application { error, initiator, .. } => CloseKind::Application { code: (*error).into(), local: is_local(initiator) },
        E::StatelessReset { .. } => CloseKind::StatelessReset,
        E::IdleTimerExpired { .. } => CloseKind::IdleTimerExpired,
        E::NoValidPath { .. } => CloseKind::NoValidPath,
        E::StreamIdExhausted { .. } => CloseKind::StreamIdExhausted,
        E::MaxHandshakeDurationExceeded { .. } => CloseKind::MaxHandshakeDurationExceeded,
        E::ImmediateClose { .. } => CloseKind::ImmediateClose,
        E::EndpointClosing { .. } => CloseKind::EndpointClosing,
        other => CloseKind::Other(format!("{other:?}")),
    }
}

impl event::Subscriber for Recorder {
    type ConnectionContext = ConnCtx;

    fn create_connection_context(&mut self, meta: &events::ConnectionMeta, _info: &events::ConnectionInfo) -> Self::ConnectionContext {
        ConnCtx { id: meta.id }
    }

    fn on_connection_started(&mut self, ctx: &mut ConnCtx, _meta: &events::ConnectionMeta, event: &events::ConnectionStarted) {
        let mut st = self.trace.lock().unwrap();
        let remote = addr_of(&event.path.remote_addr);
        if self.ep == 0 {
            if let Some(c) = st.addr_client.get(&remote).copied() {
                st.conn_client.insert((0, ctx.id), c);
            }
        }
        let ev = Ev::ConnStarted { remote, local_cid: event.path.local_cid.bytes.to_vec(), remote_cid: event.path.remote_cid.bytes.to_vec() };
        st.push(self.ep, ctx.id, ev);
    }

    fn on_packet_sent(&mut self, ctx: &mut ConnCtx, _meta: &events::ConnectionMeta, event: &events::PacketSent) {
        if let Some((space, pn)) = Space::of_header(&event.packet_header) {
            let mode = match event.transmission_mode {
                events::TransmissionMode::LossRecoveryProbing { .. } => TxMode::LossRecoveryProbing,
                events::TransmissionMode::MtuProbing { .. } => TxMode::MtuProbing,
                events::TransmissionMode::PathValidationOnly { .. } => TxMode::PathValidationOnly,
                _ => TxMode::Normal,
            };
            self.trace.lock().unwrap().push(self.ep, ctx.id, Ev::PacketSent { space, pn, len: event.packet_len, mode });
        }
    }

    fn on_packet_lost(&mut self, ctx: &mut ConnCtx, _meta: &events::ConnectionMeta, event: &events::PacketLost) {
        if let Some((space, pn)) = Space::of_header(&event.packet_header) {
            self.trace.lock().unwrap().push(self.ep, ctx.id, Ev::PacketLost { space, pn, bytes: event.bytes_lost, mtu_probe: event.is_mtu_probe, path: event.path.id });
        }
    }

    fn on_ack_range_received(&mut self, ctx: &mut ConnCtx, _meta: &events::ConnectionMeta, event: &events::AckRangeReceived) {
        if let Some((space, _)) = Space::of_header(&event.packet_header) {
            self.trace.lock().unwrap().push(self.ep, ctx.id, Ev::AckRange { space, lo: *event.ack_range.start(), hi: *event.ack_range.end(), path: event.path.id });
        }
    }

    fn on_recovery_metrics(&mut self, ctx: &mut ConnCtx, _meta: &events::ConnectionMeta, e: &events::RecoveryMetrics) {
        self.trace.lock().unwrap().push(
            self.ep,
            ctx.id,
            Ev::Metrics {
                path: e.path.id,
                min_rtt_us: e.min_rtt.as_micros() as u64,
                srtt_us: e.smoothed_rtt.as_micros() as u64,
                latest_rtt_us: e.latest_rtt.as_micros() as u64,
                rttvar_us: e.rtt_variance.as_micros() as u64,
                max_ack_delay_us: e.max_ack_delay.as_micros() as u64,
                pto_count: e.pto_count,
                cwnd: e.congestion_window,
                bytes_in_flight: e.bytes_in_flight,
                congestion_limited: e.congestion_limited,
            },
        );
    }

    fn on_transport_parameters_received(&mut self, ctx: &mut ConnCtx, _meta: &events::ConnectionMeta, event: &events::TransportParametersReceived) {
        let p = &event.transport_parameters;
        // initial_max_data is not part of the event: it is learnt from the peer's configuration by the monitors
        let params = PeerParams {
            max_idle_timeout_ms: p.max_idle_timeout.as_millis() as u64,
            ack_delay_exponent: p.ack_delay_exponent,
            max_ack_delay_ms: p.max_ack_delay.as_millis() as u64,
            max_udp_payload_size: p.max_udp_payload_size,
            active_connection_id_limit: p.active_connection_id_limit,
            initial_max_data: 0,
            bidi_local: p.initial_max_stream_data_bidi_local,
            bidi_remote: p.initial_max_stream_data_bidi_remote,
            uni: p.initial_max_stream_data_uni,
            streams_bidi: p.initial_max_streams_bidi,
            streams_uni: p.initial_max_streams_uni,
        };
        self.trace.lock().unwrap().push(self.ep, ctx.id, Ev::Params(params));
    }

    fn on_key_update(&mut self, ctx: &mut ConnCtx, _meta: &events::ConnectionMeta, event: &events::KeyUpdate) {
        let (space, generation) = match event.key_type {
            events::KeyType::Initial { .. } => (Space::Initial, 0),
            events::KeyType::Handshake { .. } => (Space::Handshake, 0),
            events::KeyType::OneRtt { generation, .. } => (Space::App, generation),
            _ => return,
        };
        let suite = match event.cipher_suite {
            events::CipherSuite::TLS_AES_128_GCM_SHA256 { .. } => 0,
            events::CipherSuite::TLS_AES_256_GCM_SHA384 { .. } => 1,
            events::CipherSuite::TLS_CHACHA20_POLY1305_SHA256 { .. } => 2,
            _ => 9,
        };
        self.trace.lock().unwrap().push(self.ep, ctx.id, Ev::KeyUpdate { space, generation, suite });
    }

    fn on_key_space_discarded(&mut self, ctx: &mut ConnCtx, _meta: &events::ConnectionMeta, event: &events::KeySpaceDiscarded) {
        let space = match event.space {
            events::KeySpace::Initial { .. } => Space::Initial,
            events::KeySpace::Handshake { .. } => Space::Handshake,
            _ => return,
        };
        self.trace.lock().unwrap().push(self.ep, ctx.id, Ev::SpaceDiscarded(space));
    }

    fn on_handshake_status_updated(&mut self, ctx: &mut ConnCtx, _meta: &events::ConnectionMeta, event: &events::HandshakeStatusUpdated) {
        let ev = match event.status {
            events::HandshakeStatus::Complete { .. } => Ev::HandshakeComplete,
            events::HandshakeStatus::Confirmed { .. } => Ev::HandshakeConfirmed,
            _ => return,
        };
        self.trace.lock().unwrap().push(self.ep, ctx.id, ev);
    }

    fn on_connection_closed(&mut self, ctx: &mut ConnCtx, _meta: &events::ConnectionMeta, event: &events::ConnectionClosed) {
        self.trace.lock().unwrap().push(self.ep, ctx.id, Ev::Closed(close_kind(&event.error)));
    }

    fn on_packet_dropped(&mut self, ctx: &mut ConnCtx, _meta: &events::ConnectionMeta, event: &events::PacketDropped) {
        let s = format!("{:?}", event.reason);
        let s = s.split(|c| c == ' ' || c == '{').next().unwrap_or("").to_string();
        self.trace.lock().unwrap().push(self.ep, ctx.id, Ev::PacketDropped(s));
    }

    fn on_datagram_dropped(&mut self, ctx: &mut ConnCtx, _meta: &events::ConnectionMeta, event: &events::DatagramDropped) {
        let s = format!("{:?}", event.reason);
        let s = s.split(|c| c == ' ' || c == '{').next().unwrap_or("").to_string();
        self.trace.lock().unwrap().push(self.ep, ctx.id, Ev::DatagramDropped(s));
    }

    fn on_rx_ack_range_dropped(&mut self, ctx: &mut ConnCtx, _meta: &events::ConnectionMeta, event: &events::RxAckRangeDropped) {
        self.trace.lock().unwrap().push(self.ep, ctx.id, Ev::AckRangeDropped { lo: *event.packet_number_range.start(), hi: *event.packet_number_range.end() });
    }

    fn on_mtu_updated(&mut self, ctx: &mut ConnCtx, _meta: &events::ConnectionMeta, event: &events::MtuUpdated) {
        self.trace.lock().unwrap().push(self.ep, ctx.id, Ev::MtuUpdated { mtu: event.mtu });
    }

    fn on_endpoint_datagram_dropped(&mut self, _meta: &events::EndpointMeta, event: &events::EndpointDatagramDropped) {
        let s = format!("{:?}", event.reason);
        let s = s.split(|c| c == ' ' || c == '{').next().unwrap_or("").to_string();
        self.trace.lock().unwrap().push(self.ep, u64::MAX, Ev::EndpointDatagramDropped { len: event.len, reason: s });
    }
}
