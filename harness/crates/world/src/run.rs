//! Executes one scenario on the deterministic executor and returns everything observed.

use crate::{
    app::{self, App, AppState, ConnLog},
    net::{now_us, NetRec, NetShared, ScriptedNet},
    rec::{Rec, Recorder, Trace, TraceState},
    scenario::{Cc, EndpointCfg, LimitsCfg, Scenario, Side},
};
use s2n_quic::{
    client::Connect,
    provider::{
        congestion_controller::{Bbr, Cubic},
        io::testing::{primary, spawn, time::delay, Executor, Handle},
        limits::Limits,
    },
    Client, Server,
};
use s2n_quic_core::crypto::tls::testing::certificates;
use std::{
    net::SocketAddr,
    sync::{Arc, Mutex},
    time::Duration,
};

pub struct Outcome {
    pub recs: Vec<Rec>,
    pub net: Vec<NetRec>,
    pub app: AppState,
    pub end_us: u64,
    pub capped: bool,
    pub server_addr: SocketAddr,
    pub client_addrs: Vec<SocketAddr>,
    /// (time, client, new address) of every NAT rebinding
    pub rebinds: Vec<(u64, usize, SocketAddr)>,
    /// what the evil endpoint injected (C04)
    pub injection: Option<crate::evil::InjectionInfo>,
    /// (own block, block handed to TLS) per TLS session: the server's sessions / the clients' sessions
    pub tp_server: Vec<(Vec<u8>, Vec<u8>)>,
    pub tp_clients: Vec<(Vec<u8>, Vec<u8>)>,
}

impl Outcome {
    /// server-side connection id -> client index (from the address the connection started with)
    pub fn server_conn_clients(&self) -> std::collections::HashMap<u64, usize> {
        let mut m = std::collections::HashMap::new();
        for r in &self.recs {
            if r.ep == 0 {
                if let crate::rec::Ev::ConnStarted { remote, .. } = &r.ev {
                    if let Some(c) = self.client_addrs.iter().position(|a| a == remote) {
                        m.insert(r.conn, c);
                    }
                }
            }
        }
        m
    }
}

/// deterministic random provider (connection ids, reset tokens, PTO jitter, ...)
pub struct Rand(u64);

impl Rand {
    pub fn new(seed: u64) -> Self {
        Rand(seed ^ 0x9E37_79B9_7F4A_7C15)
    }
    fn next(&mut self) -> u64 {
        self.0 = self.0.wrapping_add(0x9E37_79B9_7F4A_7C15);
        let mut z = self.0;
        z = (z ^ (z >> 30)).wrapping_mul(0xBF58_476D_1CE4_E5B9);
        z = (z ^ (z >> 27)).wrapping_mul(0x94D0_49BB_1331_11EB);
        z ^ (z >> 31)
    }
    fn fill(&mut self, dest: &mut [u8]) {
        for chunk in dest.chunks_mut(8) {
            let v = self.next().to_le_bytes();
            chunk.copy_from_slice(&v[..chunk.len()]);
        }
    }
}

impl s2n_quic::provider::random::Provider for Rand {
    type Generator = Self;
    type Error = core::convert::Infallible;
    fn start(self) -> Result<Self::Generator, Self::Error> {
        Ok(self)
    }
}

impl s2n_quic::provider::random::Generator for Rand {
    fn public_random_fill(&mut self, dest: &mut [u8]) {
        self.fill(dest)
    }
    fn private_random_fill(&mut self, dest: &mut [u8]) {
        self.fill(dest)
    }
}

/// deterministic stateless-reset tokens (a keyed function of the connection id); `ENABLED` makes the
/// endpoint answer packets for unknown connections, which the library's default generator does not
pub struct TokenGen<const ENABLED: bool>(pub u64);

impl<const E: bool> s2n_quic::provider::stateless_reset_token::Generator for TokenGen<E> {
    const ENABLED: bool = E;
    fn generate(&mut self, local_connection_id: &[u8]) -> s2n_quic_core::stateless_reset::Token {
        let mut t = [0u8; 16];
        let a = vcore::hash_of(&(self.0, local_connection_id, 1u8));
        let b = vcore::hash_of(&(self.0, local_connection_id, 2u8));
        t[..8].copy_from_slice(&a.to_le_bytes());
        t[8..].copy_from_slice(&b.to_le_bytes());
        t.into()
    }
}

impl<const E: bool> s2n_quic::provider::stateless_reset_token::Provider for TokenGen<E> {
    type Generator = Self;
    type Error = core::convert::Infallible;
    fn start(self) -> Result<Self::Generator, Self::Error> {
        Ok(self)
    }
}

/// deterministic connection-id format (the default one draws from the OS)
pub struct CidFormat {
    rng: Rand,
    len: usize,
    lifetime: Option<Duration>,
    rotate: bool,
}

impl CidFormat {
    pub fn new(seed: u64, len: usize, lifetime: Option<Duration>, rotate: bool) -> Self {
        CidFormat { rng: Rand::new(seed ^ 0xc1d), len, lifetime, rotate }
    }
}

impl s2n_quic::provider::connection_id::Generator for CidFormat {
    fn generate(&mut self, _info: &s2n_quic::provider::connection_id::ConnectionInfo) -> s2n_quic::provider::connection_id::LocalId {
        let mut b = [0u8; 20];
        self.rng.fill(&mut b[..self.len]);
        s2n_quic::provider::connection_id::LocalId::try_from_bytes(&b[..self.len]).expect("valid connection id length")
    }
    fn lifetime(&self) -> Option<Duration> {
        self.lifetime
    }
    fn rotate_handshake_connection_id(&self) -> bool {
        self.rotate
    }
}

impl s2n_quic::provider::connection_id::Validator for CidFormat {
    fn validate(&self, _info: &s2n_quic::provider::connection_id::ConnectionInfo, buffer: &[u8]) -> Option<usize> {
        if buffer.len() >= self.len {
            Some(self.len)
        } else {
            None
        }
    }
}

pub fn limits_of(l: &LimitsCfg) -> Limits {
    let mut v = Limits::new();
    macro_rules! set {
        ($field:ident, $method:ident, $conv:expr) => {
            if let Some(x) = l.$field {
                v = v.$method($conv(x)).expect(concat!("limit ", stringify!($field)));
            }
        };
    }
    set!(data_window, with_data_window, core::convert::identity);
    set!(bidi_local_window, with_bidirectional_local_data_window, core::convert::identity);
    set!(bidi_remote_window, with_bidirectional_remote_data_window, core::convert::identity);
    set!(uni_window, with_unidirectional_data_window, core::convert::identity);
    set!(max_open_local_bidi, with_max_open_local_bidirectional_streams, core::convert::identity);
    set!(max_open_local_uni, with_max_open_local_unidirectional_streams, core::convert::identity);
    set!(max_open_remote_bidi, with_max_open_remote_bidirectional_streams, core::convert::identity);
    set!(max_open_remote_uni, with_max_open_remote_unidirectional_streams, core::convert::identity);
    set!(max_send_buffer, with_max_send_buffer_size, core::convert::identity);
    set!(max_ack_delay_ms, with_max_ack_delay, |x: u16| Duration::from_millis(x as u64));
    set!(ack_elicitation_interval, with_ack_elicitation_interval, core::convert::identity);
    set!(max_ack_ranges, with_max_ack_ranges, core::convert::identity);
    set!(idle_timeout_ms, with_max_idle_timeout, |x: u32| Duration::from_millis(x as u64));
    set!(handshake_ms, with_max_handshake_duration, |x: u32| Duration::from_millis(x as u64));
    set!(initial_rtt_ms, with_initial_round_trip_time, |x: u16| Duration::from_millis(x.max(1) as u64));
    set!(pto_jitter, with_pto_jitter_percentage, core::convert::identity);
    set!(max_active_cids, with_max_active_connection_ids, |x: u8| x as u64);
    v
}

pub type Sockets = Arc<Mutex<Vec<s2n_quic::provider::io::testing::Socket>>>;

thread_local! {
    /// sockets of the endpoints started in this run, in start order (server, client 0, ...)
    static SOCKETS: std::cell::RefCell<Option<Sockets>> = const { std::cell::RefCell::new(None) };
}

fn io_of(handle: &Handle, cfg: &EndpointCfg) -> s2n_quic::provider::io::testing::Io {
    let (base, initial, max) = cfg.mtu;
    let sockets = SOCKETS.with(|s| s.borrow().clone());
    let mut b = handle.builder().with_max_mtu(max).with_base_mtu(base).with_initial_mtu(initial);
    if let Some(sockets) = sockets {
        b = b.on_socket(move |socket| sockets.lock().unwrap().push(socket));
    }
    b.build().unwrap()
}

/// hooks that a check can add to a run
#[derive(Default)]
pub struct Extras {
    /// called inside the executor after all endpoints are set up
    pub on_setup: Option<Box<dyn FnOnce(&Handle, &NetShared, &Trace, SocketAddr, &[SocketAddr])>>,
    pub no_payload_check: bool,
}

pub type TpArg = (Option<crate::scenario::TpRewrite>, crate::tptls::TpLog);

/// the builder's type changes with every provider: the last two choices are made by this macro
macro_rules! finish_start {
    ($b:expr, $cc:expr) => {{
        let b = $b;
        match $cc {
            Cc::Cubic => b.with_congestion_controller(Cubic::default()).unwrap().start().unwrap(),
            Cc::Bbr => b.with_congestion_controller(Bbr::default()).unwrap().start().unwrap(),
        }
    }};
}

/// unreliable datagrams (RFC 9221) with small queues
fn datagram_endpoint() -> s2n_quic::provider::datagram::default::Endpoint {
    s2n_quic::provider::datagram::default::Endpoint::builder().with_send_capacity(32).unwrap().with_recv_capacity(32).unwrap().build().unwrap()
}

/// endpoint limiter: asks for address validation by Retry when configured (it is only consulted for Initials without a token)
struct RetryIf(bool);

impl s2n_quic::provider::endpoint_limits::Limiter for RetryIf {
    fn on_connection_attempt(&mut self, _info: &s2n_quic::provider::endpoint_limits::ConnectionAttempt) -> s2n_quic::provider::endpoint_limits::Outcome {
        if self.0 {
            s2n_quic::provider::endpoint_limits::Outcome::retry()
        } else {
            s2n_quic::provider::endpoint_limits::Outcome::allow()
        }
    }
}

fn start_server(handle: &Handle, cfg: &EndpointCfg, seed: u64, rec: Recorder, resets: bool, evil: Option<crate::evil::Evil>, tp: TpArg, aes256: bool) -> Server {
    if resets {
        start_server_with::<true>(handle, cfg, seed, rec, evil, tp, aes256)
    } else {
        start_server_with::<false>(handle, cfg, seed, rec, evil, tp, aes256)
    }
}

fn start_server_with<const R: bool>(handle: &Handle, cfg: &EndpointCfg, seed: u64, rec: Recorder, evil: Option<crate::evil::Evil>, tp: TpArg, aes256: bool) -> Server {
    let mut tls = s2n_quic::provider::tls::default::Server::builder().with_certificate(certificates::CERT_PKCS1_PEM, certificates::KEY_PKCS1_PEM).unwrap();
    if aes256 {
        // TLS 1.3 with TLS_AES_256_GCM_SHA384 as the only suite; interoperates with default_tls13 clients
        let policy = s2n_quic::provider::tls::default::security::Policy::from_version("20250414").expect("harness: s2n-tls policy 20250414");
        tls.config_mut().set_security_policy(&policy).expect("harness: set_security_policy");
    }
    let tls = tls.build().unwrap();
    let tls = crate::tptls::TpTls { endpoint: tls, rewrite: tp.0, log: tp.1 };
    let b = Server::builder()
        .with_stateless_reset_token(TokenGen::<R>(seed ^ 0x70c))
        .unwrap()
        .with_io(io_of(handle, cfg))
        .unwrap()
        .with_tls(tls)
        .unwrap()
        .with_event(rec.clone())
        .unwrap()
        .with_random(Rand::new(seed))
        .unwrap()
        .with_connection_id(CidFormat::new(seed, if cfg.cid.len == 0 { 16 } else { cfg.cid.len.clamp(4, 20) as usize }, cfg.cid.lifetime_s.map(|s| Duration::from_secs(s.max(60) as u64)), cfg.cid.rotate_handshake))
        .unwrap()
        .with_packet_interceptor((evil, rec))
        .unwrap()
        .with_limits(limits_of(&cfg.limits))
        .unwrap()
        .with_endpoint_limits(RetryIf(cfg.retry))
        .unwrap();
    if cfg.datagram {
        finish_start!(b.with_datagram(datagram_endpoint()).unwrap(), cfg.cc)
    } else {
        finish_start!(b, cfg.cc)
    }
}

fn start_client(handle: &Handle, cfg: &EndpointCfg, seed: u64, rec: Recorder, resets: bool, evil: Option<crate::evil::Evil>, tp: TpArg) -> Client {
    if resets {
        start_client_with::<true>(handle, cfg, seed, rec, evil, tp)
    } else {
        start_client_with::<false>(handle, cfg, seed, rec, evil, tp)
    }
}

fn start_client_with<const R: bool>(handle: &Handle, cfg: &EndpointCfg, seed: u64, rec: Recorder, evil: Option<crate::evil::Evil>, tp: TpArg) -> Client {
    let tls = s2n_quic::provider::tls::default::Client::builder().with_certificate(certificates::CERT_PKCS1_PEM).unwrap().build().unwrap();
    let tls = crate::tptls::TpTls { endpoint: tls, rewrite: tp.0, log: tp.1 };
    let b = Client::builder()
        .with_stateless_reset_token(TokenGen::<R>(seed ^ 0x70c))
        .unwrap()
        .with_io(io_of(handle, cfg))
        .unwrap()
        .with_tls(tls)
        .unwrap()
        .with_event(rec.clone())
        .unwrap()
        .with_random(Rand::new(seed))
        .unwrap()
        .with_connection_id(CidFormat::new(seed, if cfg.cid.len == 0 { 16 } else { cfg.cid.len.clamp(4, 20) as usize }, cfg.cid.lifetime_s.map(|s| Duration::from_secs(s.max(60) as u64)), cfg.cid.rotate_handshake))
        .unwrap()
        .with_packet_interceptor((evil, rec))
        .unwrap()
        .with_limits(limits_of(&cfg.limits))
        .unwrap();
    if cfg.datagram {
        finish_start!(b.with_datagram(datagram_endpoint()).unwrap(), cfg.cc)
    } else {
        finish_start!(b, cfg.cc)
    }
}

pub fn attack_payloads(a: &crate::scenario::Attack, seen: &[Arc<Vec<u8>>]) -> Vec<Vec<u8>> {
    use crate::scenario::AttackKind as K;
    let get = |back: u16| -> Option<Vec<u8>> {
        if seen.is_empty() {
            None
        } else {
            Some(seen[vcore::gen::pick_index(back, seen.len())].as_ref().clone())
        }
    };
    match a.kind {
        K::Random { len } => vec![vcore::gen::prf_vec(a.seed, 0, len.max(1) as usize)],
        K::Replay { back, copies } => match get(back) {
            Some(p) => vec![p; 1 + (copies % 8) as usize],
            None => vec![],
        },
        K::Flip { back, pos, mask } => match get(back) {
            Some(mut p) if !p.is_empty() && mask != 0 => {
                let i = pos as usize % p.len();
                p[i] ^= mask;
                vec![p]
            }
            _ => vec![],
        },
        K::Truncate { back, keep } => match get(back) {
            Some(mut p) if p.len() > 1 => {
                p.truncate(1 + keep as usize % (p.len() - 1));
                vec![p]
            }
            _ => vec![],
        },
        K::Extend { back, extra } => match get(back) {
            Some(mut p) => {
                p.extend(vcore::gen::prf_vec(a.seed, 7, 1 + (extra % 64) as usize));
                vec![p]
            }
            None => vec![],
        },
        K::Splice { back_a, back_b, cut } => match (get(back_a), get(back_b)) {
            (Some(x), Some(y)) if !x.is_empty() && !y.is_empty() => {
                let c = 1 + cut as usize % x.len().min(y.len());
                let mut p = x[..c.min(x.len())].to_vec();
                p.extend_from_slice(&y[c.min(y.len())..]);
                if p == x || p == y {
                    vec![]
                } else {
                    vec![p]
                }
            }
            _ => vec![],
        },
        K::FirstByte { back, mask } => match get(back) {
            Some(mut p) if !p.is_empty() && mask != 0 => {
                p[0] ^= mask;
                vec![p]
            }
            _ => vec![],
        },
    }
}

pub fn stray_payload(st: &crate::scenario::Stray) -> Vec<u8> {
    use crate::scenario::StrayKind;
    let len = st.len as usize;
    let mut v = vcore::gen::prf_vec(st.seed, 0, len.max(1));
    let put = |v: &mut Vec<u8>, at: usize, bytes: &[u8]| {
        for (i, b) in bytes.iter().enumerate() {
            if at + i < v.len() {
                v[at + i] = *b;
            }
        }
    };
    match st.kind {
        StrayKind::Random => {}
        StrayKind::ShortUnknownDcid => {
            v[0] = 0x40 | (v[0] & 0x3f);
        }
        StrayKind::LongUnknownVersion => {
            v[0] = 0xc0 | (v[0] & 0x3f);
            put(&mut v, 1, &[0x1a, 0x2a, 0x3a, 0x4a]);
            put(&mut v, 5, &[8]);
            put(&mut v, 14, &[8]);
        }
        StrayKind::VersionNegotiation => {
            v[0] = 0x80 | (v[0] & 0x7f);
            put(&mut v, 1, &[0, 0, 0, 0]);
            put(&mut v, 5, &[8]);
            put(&mut v, 14, &[8]);
        }
        StrayKind::GarbageInitial => {
            v[0] = 0xc0 | (v[0] & 0x0f);
            put(&mut v, 1, &[0, 0, 0, 1]);
            put(&mut v, 5, &[8]);
            put(&mut v, 14, &[8]);
            put(&mut v, 23, &[0]);
            let rest = len.saturating_sub(26);
            put(&mut v, 24, &[0x40 | ((rest >> 8) as u8 & 0x3f), rest as u8]);
        }
    }
    v.truncate(len.max(1));
    v
}

pub fn run(sc: &Scenario) -> Outcome {
    run_with(sc, Extras::default())
}

pub fn run_with(sc: &Scenario, extras: Extras) -> Outcome {
    // hook (cfg aws_s2n_quic_verif in s2n-quic-transport's ApplicationSpace::key_limits): read when a connection is created
    match sc.key_update_after {
        Some(n) => std::env::set_var("S2N_QUIC_VERIF_KEY_UPDATE_AFTER", n.max(2).to_string()),
        None => std::env::remove_var("S2N_QUIC_VERIF_KEY_UPDATE_AFTER"),
    }
    let (net, net_shared) = ScriptedNet::new(sc.net.clone());
    let trace: Trace = Arc::new(Mutex::new(TraceState { no_payload_check: extras.no_payload_check || sc.evil.is_some(), ..Default::default() }));
    let app = App::default();
    let capped = Arc::new(Mutex::new(false));
    let addrs: Arc<Mutex<(Option<SocketAddr>, Vec<SocketAddr>)>> = Default::default();

    let evil_shared: crate::evil::EvilShared = Default::default();
    let evil_out = evil_shared.clone();
    let tp_server: crate::tptls::TpLog = Default::default();
    let tp_clients: crate::tptls::TpLog = Default::default();
    let (tp_server_out, tp_clients_out) = (tp_server.clone(), tp_clients.clone());
    let sockets: Sockets = Default::default();
    SOCKETS.with(|s| *s.borrow_mut() = Some(sockets.clone()));
    let mut executor = Executor::new(net, sc.seed);
    let handle = executor.handle().clone();

    {
        let sc = sc.clone();
        let app = app.clone();
        let trace = trace.clone();
        let net_shared = net_shared.clone();
        let capped = capped.clone();
        let addrs = addrs.clone();
        executor.enter(move || {
            for (i, c) in sc.clients.iter().enumerate() {
                app::register(&app, i, &c.conn);
                let _ = i;
            }
            app.borrow_mut().conns = vec![ConnLog::default(); sc.clients.len()];
            app.borrow_mut().handles = vec![None; sc.clients.len()];

            // server first: its address is the first one generated
            let mut server = start_server(&handle, &sc.server, sc.seed ^ 0x5e, Recorder { ep: 0, trace: trace.clone() }, sc.stateless_reset, sc.evil.filter(|e| !e.client).map(|e| crate::evil::Evil::new(e, 0, sc.clients[0].endpoint.clone(), trace.clone(), evil_shared.clone())), (sc.tp.clone().filter(|t| t.side == Side::Server), tp_server.clone()), sc.tls_aes256);
            let server_addr = server.local_addr().unwrap();
            net_shared.lock().unwrap().server_addr = Some(server_addr);
            addrs.lock().unwrap().0 = Some(server_addr);

            let scripts: Vec<_> = sc.clients.iter().map(|c| c.conn.clone()).collect();
            {
                let app = app.clone();
                let trace = trace.clone();
                spawn(async move {
                    while let Some(conn) = server.accept().await {
                        let remote = conn.remote_addr().ok();
                        let client = remote.and_then(|r| trace.lock().unwrap().addr_client.get(&r).copied());
                        let Some(client) = client else { continue };
                        app.borrow_mut().conns[client].server_accepted_us = Some(now_us());
                        app::drive_connection(app.clone(), client, Side::Server, scripts[client].clone(), conn);
                    }
                });
            }

            let mut client_addrs = vec![];
            for (i, c) in sc.clients.iter().enumerate() {
                let client = start_client(&handle, &c.endpoint, sc.seed ^ (0xc1 + i as u64), Recorder { ep: i + 1, trace: trace.clone() }, sc.stateless_reset, sc.evil.filter(|e| e.client && i == 0).map(|e| crate::evil::Evil::new(e, 1, sc.server.clone(), trace.clone(), evil_shared.clone())), (sc.tp.clone().filter(|t| t.side == Side::Client && i == 0), tp_clients.clone()));
                let local = client.local_addr().unwrap();
                client_addrs.push(local);
                trace.lock().unwrap().addr_client.insert(local, i);
                let app = app.clone();
                let script = c.conn.clone();
                app.borrow_mut().conns[i].connect_started_us = 0;
                spawn(async move {
                    let connect = Connect::new(server_addr).with_server_name("localhost");
                    match client.connect(connect).await {
                        Ok(conn) => {
                            app.borrow_mut().conns[i].connect_end = Some((Ok(()), now_us()));
                            app::drive_connection(app.clone(), i, Side::Client, script, conn);
                        }
                        Err(e) => {
                            let mut a = app.borrow_mut();
                            a.conns[i].connect_end = Some((Err(format!("{e:?}").chars().take(160).collect()), now_us()));
                        }
                    }
                    // keep the endpoint alive for the whole run
                    app.borrow_mut().keep.push(Box::new(client));
                });
            }
            addrs.lock().unwrap().1 = client_addrs.clone();

            // NAT rebinding: the client's socket moves to a fresh address
            for (k, (client, at_ms)) in sc.rebinds.iter().enumerate() {
                let ci = *client as usize;
                if ci >= sc.clients.len() {
                    continue;
                }
                let new_addr: SocketAddr = format!("1.7.{}.{}:{}", ci, k + 1, 52000 + k).parse().unwrap();
                let sockets = sockets.clone();
                let trace = trace.clone();
                let at = *at_ms as u64;
                spawn(async move {
                    delay(Duration::from_millis(at) + Duration::from_micros(1)).await;
                    trace.lock().unwrap().addr_client.insert(new_addr, ci);
                    trace.lock().unwrap().rebinds.push((now_us(), ci, new_addr));
                    // sockets are registered in start order: server first
                    if let Some(s) = sockets.lock().unwrap().get(ci + 1) {
                        s.rebind(new_addr);
                    }
                });
            }

            // attacker (C06): injects datagrams built from what it has seen on the wire
            if !sc.attacks.is_empty() {
                let mut attacks = sc.attacks.clone();
                attacks.sort_by_key(|a| a.at_us);
                let net_shared = net_shared.clone();
                let client0 = client_addrs.first().copied();
                let trace = trace.clone();
                spawn(async move {
                    let foreign: SocketAddr = "1.9.9.9:53123".parse().unwrap();
                    // the attacker starts once client 0 and the server have both confirmed the handshake
                    // (racing the unauthenticated Initial exchange is outside the property); times are relative to that instant
                    let mut t0 = None;
                    for _ in 0..30_000 {
                        delay(Duration::from_millis(1)).await;
                        let confirmed = {
                            let t = trace.lock().unwrap();
                            let c = t.recs.iter().any(|r| r.ep == 1 && matches!(r.ev, crate::rec::Ev::HandshakeConfirmed));
                            let s = t.recs.iter().any(|r| r.ep == 0 && matches!(r.ev, crate::rec::Ev::HandshakeConfirmed) && t.conn_client.get(&(0, r.conn)) == Some(&0));
                            c && s
                        };
                        if confirmed {
                            t0 = Some(now_us());
                            break;
                        }
                    }
                    let Some(t0) = t0 else { return };
                    for a in attacks {
                        let now = now_us();
                        let at = t0 + a.at_us as u64;
                        if at > now {
                            delay(Duration::from_micros(at - now)).await;
                        }
                        let Some(client0) = client0 else { break };
                        let (dst, peer) = if a.to_server { (server_addr, client0) } else { (client0, server_addr) };
                        let src = if a.spoof_peer { peer } else { foreign };
                        // genuine datagrams that were sent to the target so far, most recent first
                        let seen: Vec<Arc<Vec<u8>>> = {
                            let st = net_shared.lock().unwrap();
                            st.log.iter().rev().filter(|n| !n.injected && n.dst == dst).map(|n| n.payload.clone()).collect()
                        };
                        for payload in crate::run::attack_payloads(&a, &seen) {
                            crate::net::inject(&net_shared, src, dst, payload);
                        }
                    }
                });
            }

            // datagrams that belong to no connection
            for (k, st) in sc.strays.iter().enumerate() {
                let socket = handle.builder().build().unwrap().socket();
                let dst = if st.to_server { Some(server_addr) } else { client_addrs.first().copied() };
                let Some(dst) = dst else { continue };
                let st = *st;
                let app = app.clone();
                let _ = k;
                spawn(async move {
                    delay(Duration::from_micros(st.at_us as u64 + 1)).await;
                    let payload = stray_payload(&st);
                    let _ = socket.send_to(dst, Default::default(), payload);
                    app.borrow_mut().keep.push(Box::new(socket));
                });
            }

            if let Some(f) = extras.on_setup {
                f(&handle, &net_shared, &trace, server_addr, &client_addrs);
            }

            // supervisor: the only primary task
            let cap_us = sc.cap_ms * 1000;
            let delay_us = sc.net.delay_us as u64;
            let close_codes: Vec<Option<u32>> = sc.clients.iter().map(|c| c.conn.close_code).collect();
            primary::spawn(async move {
                loop {
                    delay(Duration::from_micros(2_000)).await;
                    let done = {
                        let a = app.borrow();
                        // a failed connect means nothing of that client will ever start
                        let all_connected_or_failed = a.conns.iter().all(|c| c.connect_end.is_some());
                        let failed: usize = a
                            .conns
                            .iter()
                            .enumerate()
                            .filter(|(_, c)| matches!(c.connect_end, Some((Err(_), _))))
                            .map(|(i, _)| a.dirs.keys().filter(|k| k.0 == i).count() * 2)
                            .sum();
                        all_connected_or_failed && a.finished_tasks + failed >= a.expected_tasks
                    };
                    if done {
                        break;
                    }
                    if now_us() >= cap_us {
                        *capped.lock().unwrap() = true;
                        break;
                    }
                }
                // close phase
                let handles: Vec<_> = app.borrow().handles.clone();
                for (i, h) in handles.iter().enumerate() {
                    if let (Some(h), Some(code)) = (h, close_codes.get(i).copied().flatten()) {
                        h.close(code.into());
                    }
                }
                delay(Duration::from_micros(4 * delay_us + 30_000)).await;
            });
        });
    }

    let result = std::panic::catch_unwind(std::panic::AssertUnwindSafe(|| executor.run()));
    if let Err(p) = result {
        // the executor's state is unknown after a panic inside a task: do not run its Drop
        std::mem::forget(executor);
        std::panic::resume_unwind(p);
    }
    let end_us = executor.enter(now_us);
    drop(executor);

    let rebinds = std::mem::take(&mut trace.lock().unwrap().rebinds);
    let recs = std::mem::take(&mut trace.lock().unwrap().recs);
    let net = std::mem::take(&mut net_shared.lock().unwrap().log);
    let app = std::mem::take(&mut *app.borrow_mut());
    let capped = *capped.lock().unwrap();
    let (server_addr, client_addrs) = {
        let a = addrs.lock().unwrap();
        (a.0.unwrap(), a.1.clone())
    };
    let injection = evil_out.lock().unwrap().done.clone();
    let tp_server = std::mem::take(&mut *tp_server_out.lock().unwrap());
    let tp_clients = std::mem::take(&mut *tp_clients_out.lock().unwrap());
    let out = Outcome { recs, net, app, end_us, capped, server_addr, client_addrs, rebinds, injection, tp_server, tp_clients };
    if std::env::var("VERIF_DUMP").is_ok() {
        dump(&out);
    }
    out
}

/// human-readable trace (replay debugging: VERIF_DUMP=1)
pub fn dump(out: &Outcome) {
    for r in &out.recs {
        let s = format!("{:?}", r.ev);
        let s: String = s.chars().take(400).collect();
        eprintln!("{:>9}us ep{} c{} {}", r.t_us, r.ep, if r.conn == u64::MAX { "-".to_string() } else { r.conn.to_string() }, s);
    }
    for n in &out.net {
        eprintln!("net {:>9}us {} -> {} len {} {:?} idx {} {:?} deliveries {:?}", n.t_us, n.src, n.dst, n.len, n.dir, n.idx, n.fate, n.deliveries_us);
    }
    let mut keys: Vec<_> = out.app.dirs.keys().collect();
    keys.sort();
    for k in keys {
        eprintln!("app {:?} {:?}", k, out.app.dirs[k]);
    }
    eprintln!("conns {:?}", out.app.conns);
    eprintln!("end {}us capped {}", out.end_us, out.capped);
}
