//! The generated value of every end-to-end check: endpoint configurations, application
//! scripts and the network's fault tape. Plain data, serde-replayable, no floats.

use serde::{Deserialize, Serialize};

#[derive(Clone, Debug, Hash, PartialEq, Eq, Serialize, Deserialize)]
pub struct Scenario {
    /// seeds the executor (task order ties), the endpoints' random providers
    pub seed: u64,
    pub server: EndpointCfg,
    pub clients: Vec<ClientCfg>,
    pub net: NetCfg,
    /// virtual-time cap of the run (ms)
    pub cap_ms: u64,
    /// datagrams that belong to no connection, sent from addresses of their own
    #[serde(default)]
    pub strays: Vec<Stray>,
    /// endpoints answer packets for unknown connections with stateless resets (off by default, as in the library)
    #[serde(default)]
    pub stateless_reset: bool,
    /// (client, at_ms): the client's socket moves to a fresh address (NAT rebinding)
    #[serde(default)]
    pub rebinds: Vec<(u8, u32)>,
    /// datagrams an off-path/on-path attacker injects (C06)
    #[serde(default)]
    pub attacks: Vec<Attack>,
    /// one endpoint turns evil: it replaces the cleartext payload of one of its packets (C04)
    #[serde(default)]
    pub evil: Option<EvilCfg>,
    /// one side's own transport parameters are rewritten on their way into its TLS session (C14)
    #[serde(default)]
    pub tp: Option<TpRewrite>,
    /// every endpoint starts a 1-RTT key update after this many packets protected with one key (hook
    /// `aws_s2n_quic_verif`: S2N_QUIC_VERIF_KEY_UPDATE_AFTER); None = the library's behaviour (2^23 - 10 000 packets)
    #[serde(default)]
    pub key_update_after: Option<u32>,
    /// the server's TLS security policy admits TLS_AES_256_GCM_SHA384 only (s2n-tls policy "20250414"), so the connection
    /// runs on the AES-256 suite of s2n-quic-crypto instead of the default TLS_AES_128_GCM_SHA256
    #[serde(default)]
    pub tls_aes256: bool,
}

/// which side's own transport parameters are rewritten, and how (applied in order to the block the endpoint encoded)
#[derive(Clone, Debug, Hash, PartialEq, Eq, Serialize, Deserialize)]
pub struct TpRewrite {
    pub side: Side,
    pub ops: Vec<TpOp>,
}

#[derive(Clone, Debug, Hash, PartialEq, Eq, Serialize, Deserialize)]
pub enum TpOp {
    /// drop every occurrence of the parameter
    Remove { id: u64 },
    /// replace the value of the first occurrence, or append the parameter when absent
    Set { id: u64, value: Vec<u8> },
    /// append another occurrence (duplicates are possible)
    Append { id: u64, value: Vec<u8> },
    /// raw bytes after the last parameter
    Raw(Vec<u8>),
    /// replace the whole block by these bytes
    Block(Vec<u8>),
}

#[derive(Clone, Copy, Debug, Hash, PartialEq, Eq, Serialize, Deserialize)]
pub enum EvilClass {
    BeyondStreamLimit,
    BeyondConnLimit,
    StreamIdBeyondLimit,
    FinalSize,
    WrongDirection,
    ForbiddenInSpace,
    BadValue,
    /// legal but unusual: must NOT close the connection
    Control,
    /// the victim's application has called stop_sending on a stream of the evil side that is still incomplete (receive state
    /// "Stopping"); the evil side answers the STOP_SENDING with a RESET_STREAM whose final size is far beyond the stream's limit
    AfterStopSending,
}

#[derive(Clone, Copy, Debug, Hash, PartialEq, Eq, Serialize, Deserialize)]
pub struct EvilCfg {
    /// the client (true) or the server (false) is the evil side; the other one is the victim
    pub client: bool,
    pub class: EvilClass,
    pub variant: u8,
    /// how many eligible packets to let pass first
    pub after: u8,
}

#[derive(Clone, Copy, Debug, Hash, PartialEq, Eq, Serialize, Deserialize)]
pub enum AttackKind {
    /// random bytes of the given length
    Random { len: u16 },
    /// verbatim copies of the `back`-th most recent genuine datagram that was sent to the target
    Replay { back: u16, copies: u8 },
    /// copy with bits flipped
    Flip { back: u16, pos: u16, mask: u8 },
    /// copy cut to `keep` bytes
    Truncate { back: u16, keep: u16 },
    /// copy with `extra` random bytes appended
    Extend { back: u16, extra: u16 },
    /// header part of one genuine datagram, body of another
    Splice { back_a: u16, back_b: u16, cut: u16 },
    /// copy with bits of the first byte toggled (reserved / fixed / key-phase / packet-number-length bits)
    FirstByte { back: u16, mask: u8 },
}

#[derive(Clone, Copy, Debug, Hash, PartialEq, Eq, Serialize, Deserialize)]
pub struct Attack {
    pub at_us: u32,
    /// target: the server (true) or client 0 (false)
    pub to_server: bool,
    /// source address: the genuine peer's (spoofed) or a foreign one
    pub spoof_peer: bool,
    pub kind: AttackKind,
    pub seed: u64,
}

#[derive(Clone, Copy, Debug, Hash, PartialEq, Eq, Serialize, Deserialize)]
pub enum StrayKind {
    /// random bytes
    Random,
    /// short-header form with an unknown destination connection id
    ShortUnknownDcid,
    /// long header with an unsupported version
    LongUnknownVersion,
    /// a Version Negotiation packet
    VersionNegotiation,
    /// long header, QUIC v1 Initial-looking, garbage body (cannot be decrypted)
    GarbageInitial,
}

#[derive(Clone, Copy, Debug, Hash, PartialEq, Eq, Serialize, Deserialize)]
pub struct Stray {
    pub at_us: u32,
    /// to the server (true) or to client 0 (false)
    pub to_server: bool,
    pub kind: StrayKind,
    pub len: u16,
    pub seed: u64,
}

#[derive(Clone, Debug, Hash, PartialEq, Eq, Serialize, Deserialize)]
pub struct ClientCfg {
    pub endpoint: EndpointCfg,
    pub conn: ConnScript,
}

#[derive(Clone, Copy, Debug, Hash, PartialEq, Eq, Serialize, Deserialize)]
pub enum Cc {
    Cubic,
    Bbr,
}

#[derive(Clone, Debug, Hash, PartialEq, Eq, Serialize, Deserialize)]
pub struct EndpointCfg {
    pub limits: LimitsCfg,
    pub cc: Cc,
    /// (base, initial, max) MTU incl. 28 bytes of IPv4+UDP headers (minimum 1228)
    pub mtu: (u16, u16, u16),
    /// connection-id provider: length (4..=20, 0 = 16), lifetime in seconds (>= 60), handshake-CID rotation
    #[serde(default)]
    pub cid: CidCfg,
    /// unreliable datagram extension (RFC 9221) enabled (off by default, as in the library)
    #[serde(default)]
    pub datagram: bool,
    /// (server) answer every Initial that carries no token with a Retry packet
    #[serde(default)]
    pub retry: bool,
}

#[derive(Clone, Copy, Debug, Hash, PartialEq, Eq, Serialize, Deserialize)]
pub struct CidCfg {
    pub len: u8,
    pub lifetime_s: Option<u16>,
    pub rotate_handshake: bool,
}

impl Default for CidCfg {
    fn default() -> Self {
        CidCfg { len: 16, lifetime_s: None, rotate_handshake: true }
    }
}

/// `None` = leave the library default
#[derive(Clone, Debug, Default, Hash, PartialEq, Eq, Serialize, Deserialize)]
pub struct LimitsCfg {
    pub data_window: Option<u64>,
    pub bidi_local_window: Option<u64>,
    pub bidi_remote_window: Option<u64>,
    pub uni_window: Option<u64>,
    pub max_open_local_bidi: Option<u64>,
    pub max_open_local_uni: Option<u64>,
    pub max_open_remote_bidi: Option<u64>,
    pub max_open_remote_uni: Option<u64>,
    pub max_send_buffer: Option<u32>,
    pub max_ack_delay_ms: Option<u16>,
    pub ack_elicitation_interval: Option<u8>,
    pub max_ack_ranges: Option<u8>,
    pub idle_timeout_ms: Option<u32>,
    pub handshake_ms: Option<u32>,
    pub initial_rtt_ms: Option<u16>,
    pub pto_jitter: Option<u8>,
    pub max_active_cids: Option<u8>,
}

#[derive(Clone, Copy, Debug, Hash, PartialEq, Eq, Serialize, Deserialize)]
pub enum Fault {
    Pass,
    Drop,
    /// deliver 1 + n copies
    Dup(u8),
    /// extra delay in units of 1/4 of the one-way delay (reordering)
    Delay(u16),
    /// flip bits `mask` of byte `pos % len`
    Corrupt { pos: u16, mask: u8 },
    /// truncate to `len % datagram_len` bytes
    Truncate(u16),
}

#[derive(Clone, Copy, Debug, Hash, PartialEq, Eq, Serialize, Deserialize)]
pub enum Dir {
    /// client -> server
    Up,
    /// server -> client
    Down,
}

/// total loss of one or both directions during [from_ms, to_ms) (to_ms = u64::MAX: for ever)
#[derive(Clone, Copy, Debug, Hash, PartialEq, Eq, Serialize, Deserialize)]
pub struct Blackhole {
    pub from_ms: u64,
    pub to_ms: u64,
    pub up: bool,
    pub down: bool,
}

#[derive(Clone, Debug, Hash, PartialEq, Eq, Serialize, Deserialize)]
pub struct NetCfg {
    /// one-way delay in microseconds
    pub delay_us: u32,
    /// datagrams larger than this are dropped by the network
    pub max_udp_payload: u16,
    /// one decision per datagram of that direction, consumed in order
    pub tape_up: Vec<Fault>,
    pub tape_down: Vec<Fault>,
    /// after the tape: repeat it for ever (true) or pass everything (false)
    pub tape_repeat: bool,
    pub blackholes: Vec<Blackhole>,
    /// explicit (direction, datagram index) -> action, used by single-fault enumeration
    pub overrides: Vec<(Dir, u32, Fault)>,
}

#[derive(Clone, Debug, Default, Hash, PartialEq, Eq, Serialize, Deserialize)]
pub struct ConnScript {
    pub streams: Vec<StreamScript>,
    /// after all local work: close the connection with this application code (client side)
    pub close_code: Option<u32>,
    /// unreliable datagrams handed to the connection (both endpoints need `datagram` enabled)
    #[serde(default)]
    pub datagrams: Vec<DgramStep>,
    /// the server application closes the connection with this code that many microseconds after accepting it
    #[serde(default)]
    pub server_close: Option<(u32, u32)>,
}

/// `side` hands a datagram of `len` bytes to its connection `at_us` after the connection was established there
#[derive(Clone, Copy, Debug, Hash, PartialEq, Eq, Serialize, Deserialize)]
pub struct DgramStep {
    pub side: Side,
    pub at_us: u32,
    pub len: u16,
}

#[derive(Clone, Copy, Debug, Hash, PartialEq, Eq, Serialize, Deserialize)]
pub enum Side {
    Client,
    Server,
}

#[derive(Clone, Debug, Hash, PartialEq, Eq, Serialize, Deserialize)]
pub struct StreamScript {
    pub initiator: Side,
    pub bidi: bool,
    /// initiator -> acceptor
    pub fwd: WriterScript,
    pub fwd_reader: ReaderScript,
    /// acceptor -> initiator (bidi only)
    pub rev: Option<WriterScript>,
    pub rev_reader: Option<ReaderScript>,
}

#[derive(Clone, Copy, Debug, Hash, PartialEq, Eq, Serialize, Deserialize)]
pub enum WStep {
    Send(u32),
    /// the same through the `futures::io::AsyncWrite` interface (`write_all`)
    Write(u32),
    PauseUs(u32),
    Flush,
}

#[derive(Clone, Copy, Debug, Hash, PartialEq, Eq, Serialize, Deserialize)]
pub enum WEnd {
    /// `finish()` then wait for the stream to be acknowledged (`close().await`)
    Finish,
    /// `finish()` without waiting
    FinishNoWait,
    Reset(u32),
}

#[derive(Clone, Debug, Hash, PartialEq, Eq, Serialize, Deserialize)]
pub struct WriterScript {
    pub steps: Vec<WStep>,
    pub end: WEnd,
}

impl WriterScript {
    pub fn total(&self) -> u64 {
        self.steps
            .iter()
            .map(|s| if let WStep::Send(n) | WStep::Write(n) = s { *n as u64 } else { 0 })
            .sum()
    }
}

#[derive(Clone, Debug, Hash, PartialEq, Eq, Serialize, Deserialize)]
pub struct ReaderScript {
    /// pause before starting to read (us)
    pub start_delay_us: u32,
    /// pause after each received chunk (us), 0 = none
    pub pause_us: u32,
    /// read through `receive_vectored` with this many slots (0 = plain `receive()`)
    pub vectored: u8,
    /// after this many bytes: `stop_sending(code)` and stop reading
    pub stop_after: Option<(u64, u32)>,
}

impl Default for ReaderScript {
    fn default() -> Self {
        ReaderScript { start_delay_us: 0, pause_us: 0, vectored: 0, stop_after: None }
    }
}

impl Default for EndpointCfg {
    fn default() -> Self {
        EndpointCfg { limits: LimitsCfg::default(), cc: Cc::Cubic, mtu: (1228, 1228, 1500), cid: CidCfg::default(), datagram: false, retry: false }
    }
}

impl Default for NetCfg {
    fn default() -> Self {
        NetCfg {
            delay_us: 10_000,
            max_udp_payload: 65_000,
            tape_up: vec![],
            tape_down: vec![],
            tape_repeat: false,
            blackholes: vec![],
            overrides: vec![],
        }
    }
}

/// stream id of the k-th stream of a kind (RFC 9000 §2.1)
pub fn stream_id(initiator: Side, bidi: bool, k: u64) -> u64 {
    let low = match (initiator, bidi) {
        (Side::Client, true) => 0,
        (Side::Server, true) => 1,
        (Side::Client, false) => 2,
        (Side::Server, false) => 3,
    };
    4 * k + low
}

impl ConnScript {
    /// (script index, stream id) for every script, ids assigned in script order per kind
    pub fn ids(&self) -> Vec<u64> {
        let mut counters = [0u64; 4];
        self.streams
            .iter()
            .map(|s| {
                let slot = match (s.initiator, s.bidi) {
                    (Side::Client, true) => 0,
                    (Side::Server, true) => 1,
                    (Side::Client, false) => 2,
                    (Side::Server, false) => 3,
                };
                let k = counters[slot];
                counters[slot] += 1;
                stream_id(s.initiator, s.bidi, k)
            })
            .collect()
    }
}

/// payload key of one direction of one stream of one connection
pub fn payload_key(client: usize, stream_id: u64, from: Side) -> u64 {
    let d = match from {
        Side::Client => 0x1111_1111u64,
        Side::Server => 0x2222_2222u64,
    };
    vcore::hash_of(&(0xC0FFEEu64, client as u64, stream_id, d))
}
