//! TLS provider wrapper that rewrites the transport-parameter block an endpoint hands to its TLS
//! session (C14, end-to-end half): the endpoint itself is unchanged, its peer sees the rewritten block.

use crate::scenario::{TpOp, TpRewrite};
use s2n_codec::EncoderValue;
use s2n_quic::provider::tls::Provider;
use s2n_quic_core::{
    application::ServerName,
    crypto::tls::{ConnectionInfo, Endpoint},
};
use std::sync::{Arc, Mutex};

/// (original block, block handed to TLS) per session created
pub type TpLog = Arc<Mutex<Vec<(Vec<u8>, Vec<u8>)>>>;

pub struct TpTls<E: Endpoint> {
    pub endpoint: E,
    pub rewrite: Option<TpRewrite>,
    pub log: TpLog,
}

fn get_varint(b: &[u8]) -> Option<(u64, usize)> {
    let first = *b.first()?;
    let len = 1usize << (first >> 6);
    if b.len() < len {
        return None;
    }
    let mut v = (first & 0x3f) as u64;
    for x in &b[1..len] {
        v = (v << 8) | *x as u64;
    }
    Some((v, len))
}

pub fn put_varint(out: &mut Vec<u8>, v: u64) {
    if v < 1 << 6 {
        out.push(v as u8);
    } else if v < 1 << 14 {
        out.extend_from_slice(&((v as u16) | 0x4000).to_be_bytes());
    } else if v < 1 << 30 {
        out.extend_from_slice(&((v as u32) | 0x8000_0000).to_be_bytes());
    } else {
        out.extend_from_slice(&(v | 0xc000_0000_0000_0000).to_be_bytes());
    }
}

/// the (id, value) pairs of a well-formed block, in order
pub fn parse_block(mut b: &[u8]) -> Option<Vec<(u64, Vec<u8>)>> {
    let mut out = vec![];
    while !b.is_empty() {
        let (id, n) = get_varint(b)?;
        b = &b[n..];
        let (len, n) = get_varint(b)?;
        b = &b[n..];
        if b.len() < len as usize {
            return None;
        }
        out.push((id, b[..len as usize].to_vec()));
        b = &b[len as usize..];
    }
    Some(out)
}

pub fn encode_block(params: &[(u64, Vec<u8>)]) -> Vec<u8> {
    let mut out = vec![];
    for (id, v) in params {
        put_varint(&mut out, *id);
        put_varint(&mut out, v.len() as u64);
        out.extend_from_slice(v);
    }
    out
}

pub fn apply(original: &[u8], rw: &TpRewrite) -> Vec<u8> {
    let mut params = parse_block(original).expect("the endpoint's own transport parameters are well formed");
    let mut tail: Vec<u8> = vec![];
    let mut whole: Option<Vec<u8>> = None;
    for op in &rw.ops {
        match op {
            TpOp::Remove { id } => params.retain(|(i, _)| i != id),
            TpOp::Set { id, value } => {
                if let Some(p) = params.iter_mut().find(|(i, _)| i == id) {
                    p.1 = value.clone();
                } else {
                    params.push((*id, value.clone()));
                }
            }
            TpOp::Append { id, value } => params.push((*id, value.clone())),
            TpOp::Raw(bytes) => tail.extend_from_slice(bytes),
            TpOp::Block(bytes) => whole = Some(bytes.clone()),
        }
    }
    let mut out = whole.unwrap_or_else(|| encode_block(&params));
    out.extend_from_slice(&tail);
    out
}

impl<E: Endpoint> TpTls<E> {
    fn bytes<P: EncoderValue>(&self, p: &P) -> Vec<u8> {
        let original = p.encode_to_vec();
        let sent = match &self.rewrite {
            Some(rw) => apply(&original, rw),
            None => original.clone(),
        };
        self.log.lock().unwrap().push((original, sent.clone()));
        sent
    }
}

impl<E: Endpoint> Endpoint for TpTls<E> {
    type Session = E::Session;

    fn new_server_session<Params: EncoderValue>(&mut self, transport_parameters: &Params, connection_info: ConnectionInfo) -> Self::Session {
        let bytes = self.bytes(transport_parameters);
        self.endpoint.new_server_session(&&bytes[..], connection_info)
    }

    fn new_client_session<Params: EncoderValue>(&mut self, transport_parameters: &Params, server_name: ServerName) -> Self::Session {
        let bytes = self.bytes(transport_parameters);
        self.endpoint.new_client_session(&&bytes[..], server_name)
    }

    fn max_tag_length(&self) -> usize {
        self.endpoint.max_tag_length()
    }
}

impl<E: Endpoint> Provider for TpTls<E> {
    type Server = Self;
    type Client = Self;
    type Error = String;

    fn start_server(self) -> Result<Self::Server, Self::Error> {
        Ok(self)
    }

    fn start_client(self) -> Result<Self::Client, Self::Error> {
        Ok(self)
    }
}
