//! Independent wire decoding for the trace monitors (RFC 9000 §16, §17.2, §19; RFC 9221).
//! Deliberately does not use s2n-codec / s2n-quic-core's frame decoders, so that the
//! monitors do not inherit a defect of the code under test.

#[derive(Clone, Debug, PartialEq, Eq)]
pub enum WFrame {
    Padding(u32),
    Ping,
    /// inclusive ranges, highest first
    Ack { ranges: Vec<(u64, u64)>, delay: u64, ecn: Option<(u64, u64, u64)> },
    ResetStream { id: u64, code: u64, final_size: u64 },
    StopSending { id: u64, code: u64 },
    Crypto { off: u64, len: u64 },
    NewToken { len: u64 },
    Stream { id: u64, off: u64, len: u64, fin: bool, data_at: usize },
    MaxData(u64),
    MaxStreamData { id: u64, max: u64 },
    MaxStreams { bidi: bool, max: u64 },
    DataBlocked(u64),
    StreamDataBlocked { id: u64, limit: u64 },
    StreamsBlocked { bidi: bool, limit: u64 },
    NewConnectionId { seq: u64, retire_prior_to: u64, cid: Vec<u8>, token: [u8; 16] },
    RetireConnectionId(u64),
    PathChallenge([u8; 8]),
    PathResponse([u8; 8]),
    ConnectionClose { app: bool, code: u64, frame_type: Option<u64>, reason_len: u64 },
    HandshakeDone,
    Datagram { len: u64 },
    /// s2n-quic extension (negotiated by a private transport parameter between two s2n-quic endpoints)
    MtuProbingComplete(u16),
    /// unknown frame type: the rest of the payload cannot be interpreted
    Unknown(u64),
}

impl WFrame {
    /// RFC 9002 §2: all frames other than ACK, PADDING and CONNECTION_CLOSE are ack-eliciting
    pub fn ack_eliciting(&self) -> bool {
        !matches!(self, WFrame::Padding(_) | WFrame::Ack { .. } | WFrame::ConnectionClose { .. })
    }
}

#[derive(Debug, Clone, PartialEq, Eq)]
pub struct WireError(pub &'static str);

pub struct Cur<'a> {
    pub b: &'a [u8],
    pub p: usize,
}

impl<'a> Cur<'a> {
    pub fn new(b: &'a [u8]) -> Self {
        Cur { b, p: 0 }
    }
    pub fn rem(&self) -> usize {
        self.b.len() - self.p
    }
    pub fn u8(&mut self) -> Result<u8, WireError> {
        let v = *self.b.get(self.p).ok_or(WireError("eof"))?;
        self.p += 1;
        Ok(v)
    }
    pub fn bytes(&mut self, n: usize) -> Result<&'a [u8], WireError> {
        if self.rem() < n {
            return Err(WireError("eof"));
        }
        let s = &self.b[self.p..self.p + n];
        self.p += n;
        Ok(s)
    }
    pub fn varint(&mut self) -> Result<u64, WireError> {
        let first = self.u8()?;
        let len = 1usize << (first >> 6);
        let mut v = (first & 0x3f) as u64;
        for _ in 1..len {
            v = (v << 8) | self.u8()? as u64;
        }
        Ok(v)
    }
}

pub fn parse_frames(payload: &[u8]) -> Result<Vec<WFrame>, WireError> {
    let mut c = Cur::new(payload);
    let mut out = vec![];
    while c.rem() > 0 {
        let ty = c.varint()?;
        let f = match ty {
            0x00 => {
                let mut n = 1u32;
                while c.rem() > 0 && c.b[c.p] == 0 {
                    c.p += 1;
                    n += 1;
                }
                WFrame::Padding(n)
            }
            0x01 => WFrame::Ping,
            0x02 | 0x03 => {
                let largest = c.varint()?;
                let delay = c.varint()?;
                let count = c.varint()?;
                let first = c.varint()?;
                let mut hi = largest;
                let mut lo = hi.checked_sub(first).ok_or(WireError("ack range underflow"))?;
                let mut ranges = vec![(lo, hi)];
                for _ in 0..count {
                    let gap = c.varint()?;
                    let len = c.varint()?;
                    hi = lo.checked_sub(gap + 2).ok_or(WireError("ack gap underflow"))?;
                    lo = hi.checked_sub(len).ok_or(WireError("ack range underflow"))?;
                    ranges.push((lo, hi));
                }
                let ecn = if ty == 0x03 {
                    Some((c.varint()?, c.varint()?, c.varint()?))
                } else {
                    None
                };
                WFrame::Ack { ranges, delay, ecn }
            }
            0x04 => WFrame::ResetStream { id: c.varint()?, code: c.varint()?, final_size: c.varint()? },
            0x05 => WFrame::StopSending { id: c.varint()?, code: c.varint()? },
            0x06 => {
                let off = c.varint()?;
                let len = c.varint()?;
                c.bytes(len as usize)?;
                WFrame::Crypto { off, len }
            }
            0x07 => {
                let len = c.varint()?;
                c.bytes(len as usize)?;
                WFrame::NewToken { len }
            }
            0x08..=0x0f => {
                let id = c.varint()?;
                let off = if ty & 0x04 != 0 { c.varint()? } else { 0 };
                let len = if ty & 0x02 != 0 { c.varint()? } else { c.rem() as u64 };
                let data_at = c.p;
                c.bytes(len as usize)?;
                WFrame::Stream { id, off, len, fin: ty & 0x01 != 0, data_at }
            }
            0x10 => WFrame::MaxData(c.varint()?),
            0x11 => WFrame::MaxStreamData { id: c.varint()?, max: c.varint()? },
            0x12 | 0x13 => WFrame::MaxStreams { bidi: ty == 0x12, max: c.varint()? },
            0x14 => WFrame::DataBlocked(c.varint()?),
            0x15 => WFrame::StreamDataBlocked { id: c.varint()?, limit: c.varint()? },
            0x16 | 0x17 => WFrame::StreamsBlocked { bidi: ty == 0x16, limit: c.varint()? },
            0x18 => {
                let seq = c.varint()?;
                let retire_prior_to = c.varint()?;
                let len = c.u8()? as usize;
                let cid = c.bytes(len)?.to_vec();
                let mut token = [0u8; 16];
                token.copy_from_slice(c.bytes(16)?);
                WFrame::NewConnectionId { seq, retire_prior_to, cid, token }
            }
            0x19 => WFrame::RetireConnectionId(c.varint()?),
            0x1a | 0x1b => {
                let mut d = [0u8; 8];
                d.copy_from_slice(c.bytes(8)?);
                if ty == 0x1a {
                    WFrame::PathChallenge(d)
                } else {
                    WFrame::PathResponse(d)
                }
            }
            0x1c | 0x1d => {
                let code = c.varint()?;
                let frame_type = if ty == 0x1c { Some(c.varint()?) } else { None };
                let reason_len = c.varint()?;
                c.bytes(reason_len as usize)?;
                WFrame::ConnectionClose { app: ty == 0x1d, code, frame_type, reason_len }
            }
            0x1e => WFrame::HandshakeDone,
            0x30 | 0x31 => {
                let len = if ty == 0x31 { c.varint()? } else { c.rem() as u64 };
                c.bytes(len as usize)?;
                WFrame::Datagram { len }
            }
            0xdc0002 => {
                let b = c.bytes(2)?;
                WFrame::MtuProbingComplete(u16::from_be_bytes([b[0], b[1]]))
            }
            other => {
                out.push(WFrame::Unknown(other));
                return Ok(out);
            }
        };
        out.push(f);
    }
    Ok(out)
}

#[derive(Clone, Copy, Debug, PartialEq, Eq, Hash)]
pub enum PktType {
    Initial,
    ZeroRtt,
    Handshake,
    Retry,
    VersionNegotiation,
    Short,
}

#[derive(Clone, Debug, PartialEq, Eq)]
pub struct WHeader {
    pub ty: PktType,
    pub version: u32,
    pub dcid: Vec<u8>,
    pub scid: Vec<u8>,
    pub token_len: usize,
    /// offset of this packet within the datagram and its total length
    pub start: usize,
    pub len: usize,
}

/// Splits a datagram into its coalesced QUIC packets by the unprotected header fields
/// (RFC 9000 §12.2, §17.2). `short_dcid_len` is the receiver's connection-id length.
pub fn parse_datagram(d: &[u8], short_dcid_len: usize) -> Vec<WHeader> {
    let mut out = vec![];
    let mut at = 0usize;
    while at < d.len() {
        let mut c = Cur::new(&d[at..]);
        let Ok(first) = c.u8() else { break };
        if first & 0x80 == 0 {
            let dcid = c.bytes(short_dcid_len.min(c.rem())).unwrap_or(&[]).to_vec();
            out.push(WHeader { ty: PktType::Short, version: 0, dcid, scid: vec![], token_len: 0, start: at, len: d.len() - at });
            break;
        }
        let Ok(vb) = c.bytes(4) else { break };
        let version = u32::from_be_bytes([vb[0], vb[1], vb[2], vb[3]]);
        let Ok(dl) = c.u8() else { break };
        let Ok(dcid) = c.bytes(dl as usize) else { break };
        let Ok(sl) = c.u8() else { break };
        let Ok(scid) = c.bytes(sl as usize) else { break };
        let (dcid, scid) = (dcid.to_vec(), scid.to_vec());
        if version == 0 {
            out.push(WHeader { ty: PktType::VersionNegotiation, version, dcid, scid, token_len: 0, start: at, len: d.len() - at });
            break;
        }
        let ty = match (first >> 4) & 0x3 {
            0 => PktType::Initial,
            1 => PktType::ZeroRtt,
            2 => PktType::Handshake,
            _ => PktType::Retry,
        };
        if ty == PktType::Retry {
            out.push(WHeader { ty, version, dcid, scid, token_len: 0, start: at, len: d.len() - at });
            break;
        }
        let mut token_len = 0;
        if ty == PktType::Initial {
            let Ok(tl) = c.varint() else { break };
            if c.bytes(tl as usize).is_err() {
                break;
            }
            token_len = tl as usize;
        }
        let Ok(plen) = c.varint() else { break };
        let total = c.p + plen as usize;
        if at + total > d.len() {
            // malformed length: report what we have and stop
            out.push(WHeader { ty, version, dcid, scid, token_len, start: at, len: d.len() - at });
            break;
        }
        out.push(WHeader { ty, version, dcid, scid, token_len, start: at, len: total });
        at += total;
    }
    out
}
