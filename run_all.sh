#!/usr/bin/env bash
# usage: ./run_all.sh [quick|thorough] [ids...]  — runs the checks on the current /repo tree, one after the other, prints one line each
tier="${1:-quick}"; shift || true
ids=("$@"); [ ${#ids[@]} -gt 0 ] || ids=(C01 C02 C03 C04 C05 C06 C07 C08 C09 C10 C11 C12 C13 C14 C15 C16 C17 C18 C19 C20)
cd /verif || exit 2
rc=0
for id in "${ids[@]}"; do
  out="$(./check "$id" --tier "$tier" 2>&1)"; e=$?
  echo "$id exit=$e $(echo "$out" | grep -E "^$id tier=" | tail -1)"
  echo "$out" | grep -E "^VIOLATION|^violation" | cut -c1-600
  [ $e -eq 0 ] || rc=1
done
exit $rc
