#!/usr/bin/env python3
"""Regenerates the seeded-change table of DESIGN.md (section 9.4) from seeded/*/meta.json."""
import json, glob, os, re
rows = []
for d in sorted(glob.glob('/verif/seeded/C*/')):
    m = json.load(open(d + 'meta.json'))
    v = m.get('verif_result', {})
    name = os.path.basename(d.rstrip('/'))
    summ = re.sub(r'\s+', ' ', m.get('summary', '')).strip()
    # first sentence, bounded
    first = re.split(r'(?<=[.;])\s', summ)[0]
    if len(first) > 260:
        first = first[:257] + '...'
    need = re.sub(r'\s+', ' ', m.get('needs_to_manifest', '')).strip()
    need = re.split(r'(?<=[.;])\s', need)[0]
    if len(need) > 200:
        need = need[:197] + '...'
    rows.append((name, name[:3], first.replace('|', '/'), need.replace('|', '/'), v.get('verdict', 'not run').replace('|', '/'), v.get('reported_key', '-').replace('|', '/')))
out = ['| seeded change | property | what it changes | needs, to manifest | verdict of the quick tier | reported key |', '|---|---|---|---|---|---|']
for r in rows:
    out.append('| `%s` | %s | %s | %s | **%s** | `%s` |' % (r[0], r[1], r[2], r[3], r[4], r[5]))
caught = sum(1 for r in rows if r[4].startswith('caught'))
out.append('')
out.append('%d changes, %d caught by the quick tier of the property they were written against (%d of them only after the check was strengthened, as noted), %d missed.' % (
    len(rows), caught, sum(1 for r in rows if 'after strengthening' in r[4]), len(rows) - caught))
table = '\n'.join(out)
p = '/verif/DESIGN.md'
s = open(p).read()
b, e = '<!-- seeded-table:begin -->', '<!-- seeded-table:end -->'
if 'SEEDED_TABLE_PLACEHOLDER' in s:
    s = s.replace('SEEDED_TABLE_PLACEHOLDER', b + '\n' + table + '\n' + e)
else:
    s = s[:s.index(b)] + b + '\n' + table + '\n' + s[s.index(e):]
open(p, 'w').write(s)
print(len(rows), 'rows;', caught, 'caught')
