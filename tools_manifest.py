#!/usr/bin/env python3
"""Generates MANIFEST.json from the table below (kept in one place so it stays valid)."""
import json, sys

CHECKS = {
 # id: (engine, technique, level text, level note, design ref)
 "C16": ("comp", "model-based property testing (proptest op sequences + exhaustive short sequences vs reference models)",
   "Generated and exhaustively enumerated operation sequences on the real Reassembler / IntervalSet / ack::Ranges / packet-number Map / SlidingWindow, compared after every operation with plain reference models incl. full content; search with shrinking, no proof of absence.",
   "Trusted base: the reference models (interval list + cursors, BTreeSet, BTreeMap) in harness/crates/comp; debug assertions of the code are armed as extra oracles.",
   "DESIGN.md §4 C16"),
}

NOT_APPLICABLE = {}

def main():
    props = [json.loads(l)["id"] for l in open("/verif/properties.jsonl")]
    checks = []
    for pid in props:
        if pid not in CHECKS:
            continue
        engine, technique, text, note, ref = CHECKS[pid]
        checks.append({
            "property_id": pid,
            "quick_cmd": f"./check {pid} --tier quick",
            "thorough_cmd": f"./check {pid} --tier thorough",
            "evidence_file": f"/verif/evidence/{pid}.json",
            "replay_cmd_template": f"./check {pid} --replay {{path}}",
            "engine": engine,
            "level_claimed": {"category": "exploration", "text": text, "design_ref": ref},
            "level_note": note,
            "technique": technique,
        })
    na = []
    for pid in props:
        if pid in CHECKS:
            continue
        na.append({"property_id": pid, "reason": NOT_APPLICABLE.get(pid, "check not built yet in this revision (planned, see DESIGN.md); not claimed until it is built, mutation-tested and silent on the unchanged tree")})
    hooks = json.load(open("/verif/hooks.json"))
    m = {
        "version": 1,
        "setup_cmd": "./check --setup",
        "hooks": hooks,
        "engines": [
            {"name": "comp", "path": "harness/crates/comp", "serves_properties": [p for p in props if p in CHECKS and CHECKS[p][0]=="comp"], "kind_free_text": "component-level property-based tests (proptest, fixed seed, shrinking) and exhaustive enumerations against reference models / RFC transcriptions"},
            {"name": "world", "path": "harness/crates/world", "serves_properties": [p for p in props if p in CHECKS and CHECKS[p][0]=="world"], "kind_free_text": "end-to-end s2n-quic connections on the deterministic testing IO with a harness-owned scripted network (fault tapes), packet interceptor recorder and trace monitors"},
            {"name": "dcv", "path": "harness/crates/dcv", "serves_properties": [p for p in props if p in CHECKS and CHECKS[p][0]=="dcv"], "kind_free_text": "s2n-quic-dc component and simulated-network checks"},
            {"name": "sched", "path": "harness/crates/sched", "serves_properties": [p for p in props if p in CHECKS and CHECKS[p][0]=="sched"], "kind_free_text": "randomised schedule exploration (shuttle) over the real sync/ sources"},
            {"name": "interop", "path": "harness/crates/interop", "serves_properties": [p for p in props if p in CHECKS and CHECKS[p][0]=="interop"], "kind_free_text": "quiche as independent peer on the virtual clock"},
        ],
        "checks": checks,
        "not_applicable": na,
        "notes": "All checks: exit 0 held / 1 VIOLATION / 2 harness failure or hang. VERIF_SEED selects the PRNG stream. Known findings: known_findings.json.",
    }
    m["engines"] = [e for e in m["engines"] if e["serves_properties"]]
    json.dump(m, open("/verif/MANIFEST.json", "w"), indent=1)
    try:
        import jsonschema
        jsonschema.validate(m, json.load(open("/root/.vp/MANIFEST.schema.json")))
        print("MANIFEST.json valid;", len(checks), "checks,", len(na), "not_applicable")
    except ImportError:
        print("jsonschema not importable; skipped validation")

main()
