#!/usr/bin/env python3
"""Generates MANIFEST.json from the table below (kept in one place so it stays valid)."""
import json, sys

E2E_NOTE = "Trusted base: the harness's own RFC 9000 frame/header parser (world/src/wire.rs), the scripted network and application drivers; both endpoints are s2n-quic on the deterministic testing IO (virtual clock); TLS is s2n-tls with an RSA certificate (fixed-size handshake), ciphertext bytes differ between runs, behaviour does not. Debug assertions of the code are armed as extra oracles."
CHECKS = {
 # id: (engine, technique, level text, level note, design ref)
 "C01": ("world", "property-based testing of end-to-end scenarios (proptest scenarios x fault tapes, payload PRF oracle, shrinking)",
   "Generated connection scenarios (configs x application scripts x per-datagram fault tapes) run on real endpoints; every byte read is compared with a keyed position-dependent PRF and clean ends with the length written. Search with shrinking; no proof of absence.",
   E2E_NOTE, "DESIGN.md section 4 C01"),
 "C03": ("world", "property-based testing of end-to-end scenarios with a trace invariant (sent frames vs credit received so far)",
   "Generated scenarios with tiny windows/limits and lossy delivery of MAX_* frames; invariant evaluated at every sent packet against the credit the endpoint had processed by then.",
   E2E_NOTE + " initial_max_data is taken from the peer's configuration.", "DESIGN.md section 4 C03"),
 "C08": ("world", "property-based testing: packet-number codec vs RFC 9000 A.2/A.3 transcription (component) + ACK trace monitor over generated end-to-end runs",
   "Component: millions of (pn, largest acked) triples against a literal transcription of RFC 9000 appendix A and ACK-frame construction against a reference set. End to end: every ACK frame sent vs the packets really processed, ack deadlines, packet-number monotonicity on generated lossy runs.",
   E2E_NOTE + " Promptness is judged only where the pacer cannot interfere (known finding) and after handshake confirmation.", "DESIGN.md section 4 C08"),
 "C09": ("world", "property-based testing: RttEstimator/loss::detect/Pto vs RFC 9002 appendix A transcription (component) + loss/in-flight ledger over generated end-to-end runs",
   "Component: op sequences against an integer transcription of RFC 9002. End to end: RFC 9002 6.1 re-evaluated at every declared loss, exact bytes-in-flight ledger at every recovery_metrics event, PTO spacing lower bound.",
   E2E_NOTE + " Events are the code's own reports, cross-checked with wire frames; ledger only while one path exists.", "DESIGN.md section 4 C09"),
 "C10": ("world", "model-based property testing of both congestion controllers (op sequences following the recovery manager's calling discipline) + cwnd monitor over generated end-to-end runs",
   "Component: generated send/ack/loss/ECN/MTU/discard sequences on CUBIC and BBRv2 with per-step bounds, monotonicity and ledger checks. End to end: bytes in flight (own ledger) below the window at every congestion-controlled send, with the RFC allowances.",
   E2E_NOTE + " BBRv2 only against the bounds the property states.", "DESIGN.md section 4 C10"),
 "C12": ("world", "property-based testing of end-to-end scenarios with a consistency relation over everything an endpoint transmits",
   "Generated scenarios with resets/stop_sending/finish/close under loss and MTU changes; relation over all sent frames per stream, stream ids returned by open(), and wire discipline after CONNECTION_CLOSE.",
   E2E_NOTE, "DESIGN.md section 4 C12"),
 "C14": ("comp", "property-based testing + exhaustive boundary enumeration of transport-parameter blocks against an acceptance table transcribed from RFC 9000 7.4/18.2",
   "Blocks from an independent TLV encoder (all subsets/orders/duplicates/varint widths/boundary values, both roles) decoded by s2n and compared with the RFC table for acceptance and for every reported/applied value. Component level only: connection-ID authentication and live-connection behaviour are not covered here.",
   "Trusted base: the RFC table in c14_params.rs (each row cites its sentence). End-to-end half (handshake outcome, CID parameters) not built.", "DESIGN.md section 4 C14"),
 "C15": ("comp", "model-based property testing + exhaustive short sequences of two coupled KeySets with an instrumented key",
   "Generated and enumerated interleavings of encrypt/decrypt/timeout/corrupt on two KeySet<K> with tiny AEAD limits against an explicit generation/counter model. Component level only (real connections with frequent updates not built).",
   "Trusted base: the model in c15_keyset.rs and its reading of RFC 9001 section 6; real AEAD limits are replaced by small ones through the same limited::Key code.", "DESIGN.md section 4 C15"),
 "C16": ("comp", "model-based property testing (proptest op sequences + exhaustive short sequences vs reference models)",
   "Generated and exhaustively enumerated operation sequences on the real Reassembler / IntervalSet / ack::Ranges / packet-number Map / SlidingWindow, compared after every operation with plain reference models incl. full content; search with shrinking, no proof of absence.",
   "Trusted base: the reference models (interval list + cursors, BTreeSet, BTreeMap) in harness/crates/comp; debug assertions of the code are armed as extra oracles.",
   "DESIGN.md section 4 C16"),
 "C17": ("sched", "generated thread programs x randomised schedules (shuttle random + PCT schedulers) over the real sync/ sources, FIFO/exactly-once/no-lost-wake-up oracle",
   "Reduced scope: interleavings under sequentially consistent atomics for bounded generated programs, sampled schedules; weak-memory reorderings are out of reach of this technique. socket ring on real threads; wakeup_queue.rs is private and not exercised.",
   "Trusted base: shuttle's scheduler and the harness's shuttle-based primitive.rs (atomics, Arc, AtomicWaker) that replaces sync/primitive.rs; the other sync/ files are the repository's own sources (symlink mirror).", "DESIGN.md section 4 C17"),
}

NOT_APPLICABLE = {}

def main():
    props = [json.loads(l)["id"] for l in open("/verif/properties.jsonl")]
    checks = []
    for pid in props:
        if pid not in CHECKS:
            continue
        engine, technique, text, note, ref = CHECKS[pid]
        checks.append({
            "property_id": pid,
            "quick_cmd": f"./check {pid} --tier quick",
            "thorough_cmd": f"./check {pid} --tier thorough",
            "evidence_file": f"/verif/evidence/{pid}.json",
            "replay_cmd_template": f"./check {pid} --replay {{path}}",
            "engine": engine,
            "level_claimed": {"category": "exploration", "text": text, "design_ref": ref},
            "level_note": note,
            "technique": technique,
        })
    na = []
    for pid in props:
        if pid in CHECKS:
            continue
        na.append({"property_id": pid, "reason": NOT_APPLICABLE.get(pid, "check not built yet in this revision (planned, see DESIGN.md); not claimed until it is built, mutation-tested and silent on the unchanged tree")})
    hooks = json.load(open("/verif/hooks.json"))
    m = {
        "version": 1,
        "setup_cmd": "./check --setup",
        "hooks": hooks,
        "engines": [
            {"name": "comp", "path": "harness/crates/comp", "serves_properties": [p for p in props if p in CHECKS and CHECKS[p][0]=="comp"], "kind_free_text": "component-level property-based tests (proptest, fixed seed, shrinking) and exhaustive enumerations against reference models / RFC transcriptions"},
            {"name": "world", "path": "harness/crates/world", "serves_properties": [p for p in props if p in CHECKS and CHECKS[p][0]=="world"], "kind_free_text": "end-to-end s2n-quic connections on the deterministic testing IO with a harness-owned scripted network (fault tapes), packet interceptor recorder and trace monitors"},
            {"name": "dcv", "path": "harness/crates/dcv", "serves_properties": [p for p in props if p in CHECKS and CHECKS[p][0]=="dcv"], "kind_free_text": "s2n-quic-dc component and simulated-network checks"},
            {"name": "sched", "path": "harness/crates/sched", "serves_properties": [p for p in props if p in CHECKS and CHECKS[p][0]=="sched"], "kind_free_text": "randomised schedule exploration (shuttle) over the real sync/ sources"},
            {"name": "interop", "path": "harness/crates/interop", "serves_properties": [p for p in props if p in CHECKS and CHECKS[p][0]=="interop"], "kind_free_text": "quiche as independent peer on the virtual clock"},
        ],
        "checks": checks,
        "not_applicable": na,
        "notes": "All checks: exit 0 held / 1 VIOLATION / 2 harness failure or hang. VERIF_SEED selects the PRNG stream. Known findings: known_findings.json.",
    }
    m["engines"] = [e for e in m["engines"] if e["serves_properties"]]
    json.dump(m, open("/verif/MANIFEST.json", "w"), indent=1)
    try:
        import jsonschema
        jsonschema.validate(m, json.load(open("/root/.vp/MANIFEST.schema.json")))
        print("MANIFEST.json valid;", len(checks), "checks,", len(na), "not_applicable")
    except ImportError:
        print("jsonschema not importable; skipped validation")

main()
