#!/usr/bin/env python3
"""Generates MANIFEST.json from the table below (kept in one place so it stays valid)."""
import json, sys

E2E_NOTE = "Trusted base: the harness's own RFC 9000 frame/header parser (world/src/wire.rs), the scripted network and application drivers; both endpoints are s2n-quic on the deterministic testing IO (virtual clock); TLS is s2n-tls with an RSA certificate (fixed-size handshake), ciphertext bytes differ between runs, behaviour does not. Debug assertions of the code are armed as extra oracles."
CHECKS = {
 # id: (engine, technique, level text, level note, design ref)
 "C01": ("world", "property-based testing of end-to-end scenarios (proptest scenarios x fault tapes, payload PRF oracle, shrinking)",
   "Generated connection scenarios (configs x application scripts x per-datagram fault tapes) run on real endpoints; every byte read is compared with a keyed position-dependent PRF and clean ends with the length written. Search with shrinking; in addition every single fault (drop/duplicate/delay/corrupt/truncate) and every adjacent pair of drops on the first 36 datagrams of each direction of four fixed scenarios is enumerated completely. No proof of absence.",
   E2E_NOTE, "DESIGN.md section 4 C01"),
 "C02": ("world", "property-based testing of end-to-end scenarios: bounded-time liveness on the virtual clock (finite fault prefixes must end in completion, permanent blackholes in a reported failure before a computed deadline) + sweep of blackhole instants",
   "Liveness decided as bounded-time safety: generated scenarios with every kind of blocking whose faults stop after a finite prefix must complete everything; with a permanent blackhole every pending operation must fail before last-reception + max(idle, 3 PTO) + PTO + slack. Search with shrinking; a lost wake-up shows up as a parked task at the cap or as an idle timeout after the network healed.",
   E2E_NOTE + " The deadline uses an upper bound of the PTO (lateness below the slack is not detected); window/stream-limit 0 excluded.", "DESIGN.md section 4 C02"),
 "C03": ("world", "property-based testing of end-to-end scenarios with a trace invariant (sent frames vs credit received so far)",
   "Generated scenarios with tiny windows/limits and lossy delivery of MAX_* frames; invariant evaluated at every sent packet against the credit the endpoint had processed by then; plus the complete single-fault enumeration over four fixed scenarios (as C01).",
   E2E_NOTE + " initial_max_data is taken from the peer's configuration.", "DESIGN.md section 4 C03"),
 "C04": ("world", "property-based testing with an injected misbehaving peer: a catalogue of protocol violations (RFC 9000 sections 4, 19) is spliced into real connections by the packet interceptor; oracle = permitted error-code table, reaction window, ordinary-completion counterfactual",
   "One s2n-quic endpoint's outgoing packets are rewritten before encryption so that it becomes a peer violating one stated rule (flow control overrun at connection/stream level, stream-id beyond limit, wrong-direction frames, final-size changes, a RESET_STREAM beyond the limit for a stream the victim application has stopped, near and far variants) at a generated point of a generated scenario; the other endpoint must close with one of the error codes RFC 9000 permits for that violation before it processes the next packet, must not deliver the offending data, and a non-violating control variant must not be rejected.",
   E2E_NOTE + " The violating frames are produced by the harness (evil.rs) and verified on the wire by its own parser; the violation catalogue is finite.", "DESIGN.md section 4 C04"),
 "C06": ("world", "property-based testing with an injected off-path attacker (forged, replayed, truncated and bit-flipped datagrams built from observed traffic, without keys) + metamorphic comparison with the attack-free run of the same scenario; differential property-based testing of the packet protection of all three cipher suites against an RFC 9001 transcription on raw primitives, with generated forgeries and a complete single-bit-flip enumeration",
   "Generated scenarios are run twice, with and without a generated list of attacker datagrams injected after the handshake; everything the applications observe (bytes, ends, error kinds) on established connections must be identical, no connection may be closed or reset by the injections, and no payload byte of an injected datagram may reach an application. Half of the cases run on TLS_AES_256_GCM_SHA384, a third with frequent 1-RTT key updates. Component level (all three suites, Initial / 0-RTT / Handshake / 1-RTT generations 0..6, packet numbers over [0,2^62)): packets sealed by s2n-quic must equal, byte for byte, an independent RFC 9001 section 5 transcription; every generated mutation (and every single bit flip and truncation of 12 fixed packets, complete) must be refused.",
   E2E_NOTE + " The attacker has no keys (it only transforms observed datagrams); stateless-reset tokens are generated by the harness provider and never shown to the attacker. TLS_CHACHA20_POLY1305_SHA256 cannot be negotiated end to end with s2n-tls (no policy selects it) and is covered at component level only; the component reference shares the HMAC / AEAD / AES block primitives of aws-lc-rs with the code under test (labels, nonce, AAD, sampling, masks and the ChaCha20 block are independent; self-tested on RFC 9001 appendix A and RFC 8439 vectors).", "DESIGN.md section 4 C06"),
 "C05": ("comp", "differential property-based testing of s2n-quic-core's codecs against an independent reference codec (refquic), round-trip / announced-size / shortest-form checks, exhaustive short varints; plus a coverage-guided libFuzzer stage (frames, datagram headers) with the same differential oracle in-target",
   "Typed values, grammar-generated bytes (incl. non-minimal varints), single/multi-byte mutations, truncations at every length and raw bytes for varints, every frame type, packet headers of every type, packet numbers and transport-parameter TLVs: s2n and the reference parser must agree on error-vs-value, every field and bytes consumed; encoders round-trip with the announced size. An explicit latitude list covers what RFC 9000 leaves open. A coverage-guided stage (cargo-fuzz/libFuzzer, fixed number of runs, fresh corpus seeded from the repository's sample encodings) drives the raw-bytes differential oracles of frames and datagram headers; its statistics are in coverage.fuzz of the evidence.",
   "Trusted base: harness/crates/refquic (written from RFC 9000 sections 16-19 and RFC 9221 only, self-tested) and the latitude list in c05_codec.rs.", "DESIGN.md section 4 C05"),
 "C07": ("interop", "differential / interoperability property testing: generated roles x configurations of both stacks x fault tapes x transfer scripts with quiche 0.29.3 as independent RFC 9000/9001 peer on the same virtual clock; oracle = payload PRF both ways, no transport error on either side, transport parameters read by each side equal what the other configured",
   "s2n-quic client against quiche server and quiche client against s2n-quic server in one process on the harness's scripted network (loss/dup/reorder, Retry by either side, zero-length CIDs, 3 congestion controllers, MTUs); every byte delivered is compared with a PRF, both sides must finish without a transport error or stall. No key update, 0-RTT or migration; agreement with quiche is evidence, not conformance.",
   "Trusted base: quiche 0.29.3 + BoringSSL (vendored, unseedable RNG: cases replay approximately; a failing case is re-executed and reported as 'failed in k of 4 executions'), the clock_gettime interposition that puts quiche on the virtual clock, the pump/driver in harness/crates/interop. Known quiche defects are avoided in the generator (listed in DESIGN.md 9).", "DESIGN.md section 4 C07"),
 "C08": ("world", "property-based testing: packet-number codec vs RFC 9000 A.2/A.3 transcription (component) + ACK trace monitor over generated end-to-end runs",
   "Component: millions of (pn, largest acked) triples against a literal transcription of RFC 9000 appendix A and ACK-frame construction against a reference set. End to end: every ACK frame sent vs the packets really processed, ack deadlines, packet-number monotonicity on generated lossy runs.",
   E2E_NOTE + " Promptness is judged only where the pacer cannot interfere (known finding) and after handshake confirmation.", "DESIGN.md section 4 C08"),
 "C09": ("world", "property-based testing: RttEstimator/loss::detect/Pto vs RFC 9002 appendix A transcription (component) + loss/in-flight ledger over generated end-to-end runs",
   "Component: op sequences against an integer transcription of RFC 9002. End to end: RFC 9002 6.1 re-evaluated at every declared loss, exact bytes-in-flight ledger at every recovery_metrics event, PTO spacing lower bound.",
   E2E_NOTE + " Events are the code's own reports, cross-checked with wire frames; ledger only while one path exists.", "DESIGN.md section 4 C09"),
 "C10": ("world", "model-based property testing of both congestion controllers (op sequences following the recovery manager's calling discipline) + cwnd monitor over generated end-to-end runs",
   "Component: generated send/ack/loss/ECN/MTU/discard sequences on CUBIC and BBRv2 with per-step bounds, monotonicity and ledger checks. End to end: bytes in flight (own ledger) below the window at every congestion-controlled send, with the RFC allowances.",
   E2E_NOTE + " BBRv2 only against the bounds the property states.", "DESIGN.md section 4 C10"),
 "C11": ("world", "property-based testing of handshake-centred end-to-end scenarios + exhaustive single/double fault enumeration, per-address byte ledger on the simulated wire",
   "Generated handshakes under heavy loss/duplication/delay with silent clients and stray datagrams of every kind and boundary length; 3x rule until the first intact client Handshake packet arrives, reply-size rules for stateless reset and Version Negotiation, client Initial padding. Single and adjacent-pair faults over the first 14 datagrams of three handshake shapes are enumerated completely.",
   E2E_NOTE + " Address validation is inferred from the wire; received bytes are over-counted (sound).", "DESIGN.md section 4 C11"),
 "C12": ("world", "property-based testing of end-to-end scenarios with a consistency relation over everything an endpoint transmits",
   "Generated scenarios with resets/stop_sending/finish/close under loss and MTU changes; relation over all sent frames per stream, stream ids returned by open(), and wire discipline after CONNECTION_CLOSE; plus the complete single-fault enumeration over four fixed scenarios (as C01).",
   E2E_NOTE, "DESIGN.md section 4 C12"),
 "C13": ("world", "property-based testing of multi-client end-to-end scenarios with id rotation/expiry/rebinding, ledger over NEW_/RETIRE_CONNECTION_ID frames and routing of every fresh datagram",
   "Generated scenarios (1-3 clients, id lengths 4-20, lifetimes, handshake-id rotation, active-id limits 2-8, NAT rebindings, lossy start): frame ledger on both sides and a routing check of every fresh intact 1-RTT datagram addressed to an unretired id.",
   E2E_NOTE + " Routing is judged after handshake confirmation only.", "DESIGN.md section 4 C13"),
 "C14": ("world", "property-based testing + exhaustive boundary enumeration of transport-parameter blocks against an acceptance table transcribed from RFC 9000 7.4/18.2 (component, incl. a coverage-guided libFuzzer stage over raw blocks) + end-to-end: one side's block rewritten inside its TLS session on live connections, handshake outcome vs the same table and RFC 9000 7.3 connection-id authentication, applied limits vs the declared values",
   "Component: blocks from an independent TLV encoder (all subsets/orders/duplicates/varint widths/boundary values, both roles) decoded by s2n and compared with the RFC table for acceptance and every reported value. End to end: a TLS provider wrapper rewrites the block an endpoint hands to TLS (complete enumeration of single-parameter boundaries, connection-id parameters removed/flipped/resized/swapped, retry_source_connection_id without Retry, server-only parameters, duplicates, unknown ids; generated 0-2 edits and whole blocks); a block the RFC refuses must make the receiver close with TRANSPORT_PARAMETER_ERROR/PROTOCOL_VIOLATION before 1-RTT keys and put that CONNECTION_CLOSE on the wire, an acceptable one must be accepted; tp_applied judges each endpoint against the values its peer declared (flow/stream-count ledger, UDP payload size, active connection ids, idle timeout window, max_ack_delay, ACK-delay scaling, reported parameters, RFC defaults for removed ones); tp_monotone runs one scenario with a small and a large declared active_connection_id_limit (metamorphic: the larger limit never yields fewer connection ids).",
   "Trusted base: the RFC table in comp/src/c14_params.rs (each row cites its sentence), the TLS wrapper world/src/tptls.rs, the wire parser. Single client, no Retry/0-RTT/preferred-address migration.", "DESIGN.md section 4 C14 and 9"),
 "C15": ("world", "model-based property testing + exhaustive short sequences of two coupled KeySets with an instrumented key (component) + property-based testing of real connections that update their 1-RTT keys every 2..200 packets (cfg-guarded hook) under loss, duplication, reordering and corruption",
   "Component: generated and enumerated interleavings of encrypt/decrypt/timeout/corrupt on two KeySet<K> with tiny AEAD limits against an explicit generation/counter model (limits, AEAD_LIMIT_REACHED, generation monotone in packet number). End to end: generated transfers with long fault tapes while both endpoints keep updating keys (up to generation > 10 per run): every genuine, timely packet must decrypt (outside the RFC 9001 6.5 retention window), generations go up one at a time and never differ by more than one between the endpoints, no transport error without corruption, payload oracle of C01, completion after finite faults.",
   "Trusted base: the model in c15_keyset.rs and its reading of RFC 9001 section 6; the hook (commit 43c2508 in /repo) changes only the key update window, the real AEAD limits stay (so the limit rules are decided at component level only); key generations end to end are the endpoints' own key_update events.", "DESIGN.md section 4 C15 and 9"),
 "C16": ("comp", "model-based property testing (proptest op sequences + exhaustive short sequences vs reference models) + coverage-guided libFuzzer stage decoding bytes into reassembler op sequences with the model oracle in-target",
   "Generated and exhaustively enumerated operation sequences on the real Reassembler / IntervalSet / ack::Ranges / packet-number Map / SlidingWindow, compared after every operation with plain reference models incl. full content; search with shrinking, no proof of absence.",
   "Trusted base: the reference models (interval list + cursors, BTreeSet, BTreeMap) in harness/crates/comp; debug assertions of the code are armed as extra oracles.",
   "DESIGN.md section 4 C16"),
 "C17": ("sched", "generated thread programs x randomised schedules (shuttle random + PCT schedulers) over the real sync/ and wakeup_queue sources, FIFO/exactly-once/no-lost-wake-up oracle; model-based op sequences for the wakeup queue",
   "Reduced scope: interleavings under sequentially consistent atomics for bounded generated programs, sampled schedules; weak-memory reorderings are out of reach of this technique. socket ring on real threads; wakeup_queue.rs (private module) is compiled from its source file: sequential model check with changing wakers + shuttle schedules.",
   "Trusted base: shuttle's scheduler and the harness's shuttle-based primitive.rs (atomics, Arc, AtomicWaker) that replaces sync/primitive.rs; the other sync/ files are the repository's own sources (symlink mirror).", "DESIGN.md section 4 C17"),
 "C18": ("dcv", "property-based testing of the dc packet codecs (round trip, all single-byte mutations of every valid packet, raw bytes) and of the path-secret map under forged control packets",
   "Every dc packet kind with real awslc keys: decode(encode(x)) == x and exact consumed length; every single-byte position x 3 values, multi-byte mutations, truncations and tag swaps must be rejected; random bytes never panic; forged secret-control/control packets leave map size, peers, next key ids, receiver windows and requested handshakes unchanged, after which the genuine packet has exactly its documented effect.",
   "Trusted base: the map fixture built through the public dc handshake interface (no hook needed), the event recorder, and the reading of 'documented effect' in c18_map.rs. Thread schedules are OS-driven.", "DESIGN.md section 4 C18"),
 "C19": ("dcv", "model-based property testing of the key-id replay window (walks + exhaustive short sequences against an exact set+window model) and of key-id issuing under real-thread contention",
   "Receiver: generated walks around the 896 window and exhaustive sequences over the boundary alphabet against seen-set/max model, both directions (never accept twice, never refuse an acceptable id); concurrent receivers and senders on 2-8 OS threads with order-independent oracles; StaleKey notifications through all map entry points.",
   "Trusted base: the set+window model in c19.rs; thread interleavings are whatever the OS produces (x86), not enumerated.", "DESIGN.md section 4 C19"),
 "C20": ("dcsim", "property-based testing of s2n-quic-dc streams in the bach simulation (generated workloads x MTUs x fault-injecting queue allocator / lossy network), payload PRF oracle and bounded-time completion on the virtual clock",
   "Generated dc stream workloads (request/response sizes, MTU 1250-32k, TCP and UDP transports, loss/reorder/duplicate tapes, queue-allocation faults) on the real dc stream code in bach; every byte read is compared with a PRF, streams must finish or fail within a computed virtual-time bound, panics in repository code are violations. Complete enumerations on fixed exchanges: every single datagram fault, every (packet, first retransmissions) loss pair of fixed dialogues, every lost datagram x a grid of instants at which the peer goes away for ever, every cut position of a TCP connection.",
   "Trusted base: the bach simulator, the harness's fault-injecting allocator and workload drivers (harness/crates/dcsim).", "DESIGN.md section 4 C20"),
}

NOT_APPLICABLE = {}

def main():
    props = [json.loads(l)["id"] for l in open("/verif/properties.jsonl")]
    checks = []
    for pid in props:
        if pid not in CHECKS:
            continue
        engine, technique, text, note, ref = CHECKS[pid]
        checks.append({
            "property_id": pid,
            "quick_cmd": f"./check {pid} --tier quick",
            "thorough_cmd": f"./check {pid} --tier thorough",
            "evidence_file": f"/verif/evidence/{pid}.json",
            "replay_cmd_template": f"./check {pid} --replay {{path}}",
            "engine": engine,
            "level_claimed": {"category": "exploration", "text": text, "design_ref": ref},
            "level_note": note,
            "technique": technique,
        })
    na = []
    for pid in props:
        if pid in CHECKS:
            continue
        na.append({"property_id": pid, "reason": NOT_APPLICABLE.get(pid, "check not built yet in this revision (planned, see DESIGN.md); not claimed until it is built, mutation-tested and silent on the unchanged tree")})
    hooks = json.load(open("/verif/hooks.json"))
    m = {
        "version": 1,
        "setup_cmd": "./check --setup",
        "hooks": hooks,
        "engines": [
            {"name": "comp", "path": "harness/crates/comp", "serves_properties": [p for p in props if p in CHECKS and CHECKS[p][0]=="comp"], "kind_free_text": "component-level property-based tests (proptest, fixed seed, shrinking) and exhaustive enumerations against reference models / RFC transcriptions"},
            {"name": "world", "path": "harness/crates/world", "serves_properties": [p for p in props if p in CHECKS and CHECKS[p][0]=="world"], "kind_free_text": "end-to-end s2n-quic connections on the deterministic testing IO with a harness-owned scripted network (fault tapes), packet interceptor recorder and trace monitors"},
            {"name": "dcv", "path": "harness/crates/dcv", "serves_properties": [p for p in props if p in CHECKS and CHECKS[p][0]=="dcv"], "kind_free_text": "s2n-quic-dc component checks: packet codecs, path-secret map, key-id window (proptest + real threads)"},
            {"name": "dcsim", "path": "harness/crates/dcsim", "serves_properties": [p for p in props if p in CHECKS and CHECKS[p][0]=="dcsim"], "kind_free_text": "s2n-quic-dc streams in the bach simulation with a fault-injecting queue allocator"},
            {"name": "sched", "path": "harness/crates/sched", "serves_properties": [p for p in props if p in CHECKS and CHECKS[p][0]=="sched"], "kind_free_text": "randomised schedule exploration (shuttle) over the real sync/ sources"},
            {"name": "interop", "path": "harness/crates/interop", "serves_properties": [p for p in props if p in CHECKS and CHECKS[p][0]=="interop"], "kind_free_text": "quiche as independent peer on the virtual clock"},
        ],
        "checks": checks,
        "not_applicable": na,
        "notes": "All checks: exit 0 held / 1 VIOLATION / 2 harness failure or hang. VERIF_SEED selects the PRNG stream. Known findings: known_findings.json.",
    }
    m["engines"] = [e for e in m["engines"] if e["serves_properties"]]
    json.dump(m, open("/verif/MANIFEST.json", "w"), indent=1)
    try:
        import jsonschema
        jsonschema.validate(m, json.load(open("/root/.vp/MANIFEST.schema.json")))
        print("MANIFEST.json valid;", len(checks), "checks,", len(na), "not_applicable")
    except ImportError:
        print("jsonschema not importable; skipped validation")

main()
